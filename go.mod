module verif

go 1.26
