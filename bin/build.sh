#!/bin/bash
# build.sh <scratch-dir> [race]
# Instruments /repo's current working tree into <scratch-dir>, overlays the
# harness (/verif/sim) into package sctp and builds <scratch-dir>/sim.test.
# Never writes into /repo. Exit 2 on any build trouble.
set -u
S="$1"; RACE="${2:-}"
export GOFLAGS=-mod=mod GOPROXY=off GOSUMDB=off GOTOOLCHAIN=local GONOSUMDB='*' GONOSUMCHECK=1
export PATH=/opt/veriftools/go1.26.8/bin:$PATH
GO=go1.26.8
VERIF="$(cd "$(dirname "$0")/.." && pwd)"
REPO="${VERIF_REPO:-/repo}"
mkdir -p "$S/inst" || exit 2
if [ ! -x "$VERIF/bin/instrument" ] || [ "$VERIF/cmd/instrument/main.go" -nt "$VERIF/bin/instrument" ]; then
  (cd "$VERIF" && $GO build -o "$VERIF/bin/instrument" ./cmd/instrument) || { echo "BUILD: instrumenter failed" >&2; exit 2; }
fi
EXTRA="$VERIF/sim"
if [ "$RACE" = "race" ]; then
  # race builds: the harness' own memory accesses are not the subject: every harness function is
  # compiled without race instrumentation (its synchronisation is hidden by zz_vsim_race_on.go)
  mkdir -p "$S/simrace" || exit 2
  for f in "$VERIF"/sim/*.go; do
    awk '/^func /{print "//go:norace"} {print}' "$f" > "$S/simrace/$(basename "$f")" || exit 2
  done
  EXTRA="$S/simrace"
fi
"$VERIF/bin/instrument" -repo "$REPO" -out "$S/inst" -overlay "$S/overlay.json" -extra "$EXTRA" > "$S/census.json" || { echo "BUILD: instrumentation failed" >&2; exit 2; }
# The write-deadline timer of pion/transport (deadline.Deadline) is the one timer of the system that lives outside the
# package: its expiry callback gets the same scheduling hook as the package's own timer callbacks. The module cache
# cannot be overlaid, so the build uses a scratch copy of the module (of the version go.mod selects) through a
# `replace` line of the scratch go.mod; fails closed if the source does not look as expected.
DLV=$(awk '$1=="github.com/pion/transport/v4"{print $2}' "$REPO/go.mod" | head -1)
DLM="$(cd "$REPO" && $GO env GOMODCACHE)/github.com/pion/transport/v4@$DLV"
rm -rf "$S/transport" && cp -r "$DLM" "$S/transport" && chmod -R u+w "$S/transport" || { echo "BUILD: cannot copy pion/transport $DLV" >&2; exit 2; }
python3 - "$S/transport/deadline/deadline.go" <<'PYEOF' || { echo "BUILD: cannot patch the deadline timer of pion/transport" >&2; exit 2; }
import sys
f = sys.argv[1]
s = open(f).read()
old = "func (d *Deadline) timeout() {\n"
if s.count(old) != 1:
    sys.exit("deadline.go: timeout() not found")
s = s.replace(old, old + "\tif SimTimerHook != nil {\n\t\tdefer SimTimerHook(d)()\n\t}\n")
old2 = "\treturn &Deadline{\n\t\tdone: make(chan struct{}),\n\t}\n"
if s.count(old2) != 1:
    sys.exit("deadline.go: New() not found")
s = s.replace(old2, "\td := &Deadline{\n\t\tdone: make(chan struct{}),\n\t}\n\tif SimNewHook != nil {\n\t\tSimNewHook(d)\n\t}\n\n\treturn d\n")
s += "\n// SimTimerHook is set by the simulation harness of pion/sctp (scratch copy only): the expiry callback parks\n// until the seeded scheduler lets it run.\nvar SimTimerHook func(recv any) func()\n\n// SimNewHook lets the harness give every Deadline a deterministic name (creation order).\nvar SimNewHook func(recv any)\n"
open(f, 'w').write(s)
PYEOF
sed -e 's/^go 1\.[0-9.]*$/go 1.26/' "$REPO/go.mod" > "$S/sim.mod"
cat >> "$S/sim.mod" <<EOF

require (
	github.com/anishathalye/porcupine v1.3.0
	pgregory.net/rapid v1.3.0
)

replace github.com/pion/transport/v4 => $S/transport
EOF
cp "$REPO/go.sum" "$S/sim.sum"
cat "$VERIF/sim/extra.sum" >> "$S/sim.sum" 2>/dev/null
FLAGS=""
[ "$RACE" = "race" ] && FLAGS="-race"
(cd "$REPO" && $GO test -c $FLAGS -vet=off -modfile="$S/sim.mod" -overlay="$S/overlay.json" -o "$S/sim.test" . ) || { echo "BUILD: go test -c failed" >&2; exit 2; }
echo "$S/sim.test"
