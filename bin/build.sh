#!/bin/bash
# build.sh <scratch-dir> [race]
# Instruments /repo's current working tree into <scratch-dir>, overlays the
# harness (/verif/sim) into package sctp and builds <scratch-dir>/sim.test.
# Never writes into /repo. Exit 2 on any build trouble.
set -u
S="$1"; RACE="${2:-}"
export GOFLAGS=-mod=mod GOPROXY=off GOSUMDB=off GOTOOLCHAIN=local GONOSUMDB='*' GONOSUMCHECK=1
export PATH=/opt/veriftools/go1.26.8/bin:$PATH
GO=go1.26.8
VERIF="$(cd "$(dirname "$0")/.." && pwd)"
REPO="${VERIF_REPO:-/repo}"
mkdir -p "$S/inst" || exit 2
if [ ! -x "$VERIF/bin/instrument" ] || [ "$VERIF/cmd/instrument/main.go" -nt "$VERIF/bin/instrument" ]; then
  (cd "$VERIF" && $GO build -o "$VERIF/bin/instrument" ./cmd/instrument) || { echo "BUILD: instrumenter failed" >&2; exit 2; }
fi
EXTRA="$VERIF/sim"
if [ "$RACE" = "race" ]; then
  # race builds: the harness' own memory accesses are not the subject: every harness function is
  # compiled without race instrumentation (its synchronisation is hidden by zz_vsim_race_on.go)
  mkdir -p "$S/simrace" || exit 2
  for f in "$VERIF"/sim/*.go; do
    awk '/^func /{print "//go:norace"} {print}' "$f" > "$S/simrace/$(basename "$f")" || exit 2
  done
  EXTRA="$S/simrace"
fi
"$VERIF/bin/instrument" -repo "$REPO" -out "$S/inst" -overlay "$S/overlay.json" -extra "$EXTRA" > "$S/census.json" || { echo "BUILD: instrumentation failed" >&2; exit 2; }
sed -e 's/^go 1\.[0-9.]*$/go 1.26/' "$REPO/go.mod" > "$S/sim.mod"
cat >> "$S/sim.mod" <<EOF

require (
	github.com/anishathalye/porcupine v1.3.0
	pgregory.net/rapid v1.3.0
)
EOF
cp "$REPO/go.sum" "$S/sim.sum"
cat "$VERIF/sim/extra.sum" >> "$S/sim.sum" 2>/dev/null
FLAGS=""
[ "$RACE" = "race" ] && FLAGS="-race"
(cd "$REPO" && $GO test -c $FLAGS -vet=off -modfile="$S/sim.mod" -overlay="$S/overlay.json" -o "$S/sim.test" . ) || { echo "BUILD: go test -c failed" >&2; exit 2; }
echo "$S/sim.test"
