#!/bin/bash
# reseed.sh <seeded-name> <check...>: re-run checks against a scratch copy of /repo with a stored seeded change applied
# (regression of the checks themselves after a harness change). Leaves /repo, evidence and replays untouched.
set -u
N="$1"; shift
C=$(mktemp -d /var/tmp/reseed-XXXXXX)
rsync -a --exclude .git /repo/ "$C/" && (cd "$C" && git init -q . && git apply "/verif/seeded/$N/patch.diff") || { echo "cannot apply $N"; rm -rf "$C"; exit 2; }
SAVE=$(mktemp -d /var/tmp/reseed-ev-XXXXXX); cp -a /verif/evidence/. "$SAVE/"; ls /verif/replays > "$SAVE/.replays"
for p in "$@"; do
  VERIF_REPO="$C" /verif/check "$p" 2>&1 | grep -v "^NOTE\|^KNOWN" | grep "^VIOLATION\|^OK\|^HARNESS\|^BUILD" | head -2 | cut -c1-200 | sed "s/^/$N $p: /"
done
rm -rf /verif/evidence; mkdir -p /verif/evidence; cp -a "$SAVE/." /verif/evidence/; rm -f /verif/evidence/.replays
for f in $(ls /verif/replays); do grep -qx "$f" "$SAVE/.replays" || rm -f "/verif/replays/$f"; done
rm -rf "$C" "$SAVE"
