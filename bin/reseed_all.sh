#!/bin/bash
# reseed_all.sh [name-prefix...]: regression of the checks themselves: every stored seeded change is applied to a scratch
# copy of /repo and the checks recorded as detecting it (meta.json detected_by) are run again; prints one line per
# (change, check) and a summary of the ones that no longer detect. Leaves /repo, evidence and replays untouched.
cd /verif
miss=0; total=0
for d in seeded/s*; do
  n=$(basename "$d")
  if [ $# -gt 0 ]; then ok=0; for p in "$@"; do case "$n" in $p*) ok=1;; esac; done; [ $ok = 1 ] || continue; fi
  checks=$(python3 -c "import json,sys; print(' '.join(json.load(open('$d/meta.json')).get('detected_by') or []))")
  [ -z "$checks" ] && { echo "$n: (recorded as not detected)"; continue; }
  total=$((total+1)); found=0
  for c in $checks; do
    out=$(bin/reseed.sh "$n" $c)
    echo "$out"
    if echo "$out" | grep -q "VIOLATION"; then found=1; break; fi
    echo "NOTE: $n not detected by $c in this run"
  done
  [ $found = 1 ] || { miss=$((miss+1)); echo "REGRESSION: $n no longer detected by any of: $checks"; }
done
echo "reseed_all: $total changes re-run, $miss no longer detected"
