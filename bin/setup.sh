#!/bin/bash
# Offline setup: build the instrumenter and warm the Go build cache.
set -e
export GOFLAGS=-mod=mod GOPROXY=off GOSUMDB=off GOTOOLCHAIN=local
export PATH=/opt/veriftools/go1.26.8/bin:$PATH
cd "$(dirname "$0")/.."
go1.26.8 build -o bin/instrument ./cmd/instrument
S=$(mktemp -d /var/tmp/vsim-setup-XXXXXX)
trap 'rm -rf "$S"' EXIT
./bin/build.sh "$S" >/dev/null
"$S/sim.test" -test.run '^TestVsim$' -vsim.prop smoke -vsim.n 2 >/dev/null
echo "setup ok"
