#!/usr/bin/env python3
"""trymut.py PROP FILE OLD NEW [--runs N]: copy /repo to a scratch dir, replace OLD by NEW in FILE (must match exactly once),
run ./check PROP against it, remove the copy. Used for sensitivity experiments only."""
import sys, os, shutil, subprocess, tempfile
prop, fn, old, new = sys.argv[1:5]
extra = sys.argv[5:]
d = tempfile.mkdtemp(prefix='mut-', dir='/var/tmp')
try:
    dst = os.path.join(d, 'repo')
    shutil.copytree('/repo', dst, ignore=shutil.ignore_patterns('.git'))
    p = os.path.join(dst, fn)
    s = open(p).read()
    if s.count(old) != 1:
        print(f"pattern matches {s.count(old)} times"); sys.exit(2)
    open(p, 'w').write(s.replace(old, new))
    env = dict(os.environ, VERIF_REPO=dst)
    r = subprocess.run(['/verif/check', prop] + extra, env=env)
    print("exit", r.returncode)
finally:
    shutil.rmtree(d, ignore_errors=True)
