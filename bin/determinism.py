#!/usr/bin/env python3
"""determinism.py [--seeds N] [--procs P]: determinism self-test. For every scenario of every property's
quick legs, the same seeds are executed in P separate processes at GOMAXPROCS 1 / 4 / 16; event-log hashes,
observable hashes, step counts and verdicts must be identical. Exit 0 = identical, 1 = divergence, 2 = trouble."""
import sys, os, json, subprocess, tempfile, shutil, argparse, collections
sys.path.insert(0, os.path.join(os.path.dirname(os.path.abspath(__file__)), '..', 'lib'))
import props
ap = argparse.ArgumentParser()
ap.add_argument('--seeds', type=int, default=40)
ap.add_argument('--procs', type=int, default=6)
ap.add_argument('--scenario')
a = ap.parse_args()
VERIF = os.path.join(os.path.dirname(os.path.abspath(__file__)), '..')
scratch = tempfile.mkdtemp(prefix='vsim-det-', dir='/var/tmp')
try:
    r = subprocess.run([os.path.join(VERIF, 'bin', 'build.sh'), scratch], stdout=subprocess.PIPE, stderr=subprocess.PIPE, text=True)
    if r.returncode != 0:
        print(r.stderr[-2000:]); sys.exit(2)
    binary = os.path.join(scratch, 'sim.test')
    known = json.load(open(os.path.join(VERIF, 'known_findings.json')))['findings']
    karg = ','.join(sorted({f"{k['property']}:{k['class']}" + ('!' if k.get('stop') else '') for k in known if k.get('status') == 'open' and k.get('soft')}))
    scen = []
    for pid, P in sorted(props.PROPS.items()):
        for leg in P['legs']['quick']:
            key = (leg['scenario'], json.dumps(leg.get('params') or {}, sort_keys=True))
            if key not in [s[:2] for s in scen]:
                scen.append((leg['scenario'], key[1], leg.get('params')))
    if a.scenario:
        scen = [s for s in scen if s[0] == a.scenario]
    bad = 0
    total = 0
    for name, _, params in scen:
        n = a.seeds if not name.startswith(('C16w', 'C11h', 'D_bitmap')) else max(4, a.seeds // 10)
        procs = []
        for k in range(a.procs):
            out = os.path.join(scratch, f'det-{name}-{k}.jsonl')
            cmd = [binary, '-test.run', '^TestVsim$', '-test.timeout', '0', '-vsim.prop', name, '-vsim.seed0', '7000003', '-vsim.n', str(n), '-vsim.out', out, '-vsim.known', karg]
            if params:
                cmd += ['-vsim.params', json.dumps(params)]
            env = dict(os.environ, GOMAXPROCS=str([1, 4, 16][k % 3]))
            procs.append((subprocess.Popen(cmd, stdout=subprocess.DEVNULL, stderr=subprocess.PIPE, env=env), out))
        rows = []
        for p, out in procs:
            _, se = p.communicate()
            if p.returncode not in (0, 4):
                print(f"TROUBLE scenario={name} exit={p.returncode}: {se.decode(errors='replace')[-800:]}"); sys.exit(2)
            d = {}
            for l in open(out):
                l = l.strip()
                if l.startswith('{'):
                    r = json.loads(l)
                    if 'seed' in r:
                        d[r['seed']] = (r.get('hash'), r.get('obs_hash'), r.get('steps'), json.dumps(r.get('violation')), r.get('aborted'))
            rows.append(d)
        common = set(rows[0])
        for d in rows[1:]:
            common &= set(d)
        diff = [s for s in sorted(common) if any(d[s] != rows[0][s] for d in rows[1:])]
        total += len(common)
        print(f"{name:24s} seeds compared {len(common):4d} x {a.procs} processes: {'IDENTICAL' if not diff else 'DIVERGENT ' + str(diff[:5])}")
        if diff:
            bad += 1
            s0 = diff[0]
            for d in rows:
                print('   ', d[s0])
    print(f"determinism self-test: {total} seeds x {a.procs} processes (GOMAXPROCS 1/4/16), {bad} scenarios divergent")
    sys.exit(1 if bad else 0)
finally:
    shutil.rmtree(scratch, ignore_errors=True)
