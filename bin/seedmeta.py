#!/usr/bin/env python3
"""seedmeta.py <name> <breaks_property> <needs_to_manifest> [note]: turn seeded/<name>/run.json (written by seedtest.py) into meta.json"""
import json, os, sys
name, breaks, needs = sys.argv[1:4]
note = sys.argv[4] if len(sys.argv) > 4 else None
d = f'/verif/seeded/{name}'
r = json.load(open(d + '/run.json'))
m = {"breaks_property": breaks, "needs_to_manifest": needs, "confirmed_in_scratch_worktree": r['confirmed'],
     "what_was_run": r['ran'], "checks_run_against_it": r['checks'], "detected_by": r['detected_by'],
     "first_evaluation": r.get("first_evaluation"), "origin": "independent sub-agent given only the property text and a scratch worktree"}
if note:
    m['note'] = note
json.dump(m, open(d + '/meta.json', 'w'), indent=1)
os.remove(d + '/run.json')
print(name, m['confirmed_in_scratch_worktree'], m['detected_by'])
