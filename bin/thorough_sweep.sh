#!/bin/bash
# thorough_sweep.sh [budget-seconds-per-leg] [seed]: the thorough tier of every check, one after the other,
# with a per-leg wall-clock budget (default: the registered budgets). Prints one line per check.
cd "$(dirname "$0")/.."
B="${1:-0}"; export VERIF_SEED="${2:-1}"
for p in $(python3 -c "import sys; sys.path.insert(0,'lib'); import props; print(' '.join(sorted(props.PROPS)))"); do
  if [ "$B" != "0" ]; then ./check $p --tier thorough --budget $B 2>&1 | grep -v "^KNOWN-FINDING" | cut -c1-600 | tail -4
  else ./check $p --tier thorough 2>&1 | grep -v "^KNOWN-FINDING" | cut -c1-600 | tail -4; fi
done
