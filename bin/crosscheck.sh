#!/bin/bash
# Developer aid: run every quick check and list the verdicts that scenarios produce about
# properties they do not own (each of them is either a defect or a monitor that is unsound
# outside its own scenario; both must be triaged).
cd /verif
for p in $(python3 -c "import sys; sys.path.insert(0,'lib'); import props; print(' '.join(sorted(props.PROPS)))"); do
  echo "== $p"
  ./check $p "$@" 2>&1 | cut -c1-330 | grep -v "^KNOWN" | sed 's/seed=[0-9]*//' | sort | uniq -c | sort -rn | head -8
done
