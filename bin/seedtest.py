#!/usr/bin/env python3
"""seedtest.py <seed-dir> <name> <prop> [check-props...]
Confirms a seeded change (patch.diff + zz_seed_demo_test.go) in a scratch worktree:
suite passes with the patch, demo fails with it and passes without it. Then applies it to /repo,
runs the given checks (quick), and reverts /repo. Stores the artefacts under /verif/seeded/<name>/."""
import sys, os, subprocess, shutil, json, time
src, name, prop = sys.argv[1:4]
checks = sys.argv[4:] or [prop]
dst = f'/verif/seeded/{name}'
os.makedirs(dst, exist_ok=True)
for f in ('patch.diff', 'zz_seed_demo_test.go', 'NOTES.md'):
    if os.path.exists(os.path.join(src, f)):
        shutil.copy(os.path.join(src, f), os.path.join(dst, f))
wt = f'/tmp/seedverify-{name}'
subprocess.run(['git', '-C', '/repo', 'worktree', 'remove', '--force', wt], stderr=subprocess.DEVNULL)
subprocess.check_call(['git', '-C', '/repo', 'worktree', 'add', '-q', wt, 'HEAD'])
meta = {'property': prop, 'ran': []}
def run(cmd, cwd):
    r = subprocess.run(cmd, cwd=cwd, shell=True, stdout=subprocess.PIPE, stderr=subprocess.STDOUT, text=True)
    return r.returncode, r.stdout
try:
    rc, out = run(f'git apply {dst}/patch.diff', wt)
    assert rc == 0, 'patch does not apply: ' + out
    shutil.copy(f'{dst}/zz_seed_demo_test.go', wt)
    rc, out = run("go test -vet=off -count=1 -timeout 25m -skip 'TestSeedDemo' . 2>&1 | tail -3", wt)
    suite_ok = 'ok  ' in out and 'FAIL' not in out
    meta['ran'].append({'cmd': 'go test -skip TestSeedDemo . (with patch)', 'ok': suite_ok, 'tail': out[-300:]})
    rc, out = run("go test -vet=off -count=1 -timeout 10m -run 'TestSeedDemo' . 2>&1 | tail -5", wt)
    demo_fails = 'FAIL' in out
    meta['ran'].append({'cmd': 'go test -run TestSeedDemo . (with patch)', 'fails': demo_fails, 'tail': out[-300:]})
    run(f'git apply -R {dst}/patch.diff', wt)
    rc, out = run("go test -vet=off -count=1 -timeout 10m -run 'TestSeedDemo' . 2>&1 | tail -5", wt)
    demo_passes = 'ok  ' in out and 'FAIL' not in out
    meta['ran'].append({'cmd': 'go test -run TestSeedDemo . (without patch)', 'passes': demo_passes, 'tail': out[-300:]})
    print(f'suite_ok={suite_ok} demo_fails_with={demo_fails} demo_passes_without={demo_passes}')
    meta['confirmed'] = bool(suite_ok and demo_fails and demo_passes)
finally:
    subprocess.run(['git', '-C', '/repo', 'worktree', 'remove', '--force', wt])
# run the checks against a scratch copy of /repo's working tree with the patch applied (VERIF_REPO), so that
# /repo itself is never modified and concurrent checks of the unchanged tree are not disturbed
import tempfile
st = subprocess.run('git -C /repo status --porcelain', shell=True, stdout=subprocess.PIPE, text=True).stdout.strip()
assert st == '', '/repo not clean: ' + st
copy = tempfile.mkdtemp(prefix='seedrepo-', dir='/var/tmp')
subprocess.check_call(f'rsync -a --exclude .git /repo/ {copy}/', shell=True)
subprocess.check_call(f'cd {copy} && git init -q . && git apply {dst}/patch.diff', shell=True)
results = {}
# evidence and replays written while checking the patched copy are not kept
ev_save = '/var/tmp/seedtest-evidence'
shutil.rmtree(ev_save, ignore_errors=True)
shutil.copytree('/verif/evidence', ev_save)
rp_before = set(os.listdir('/verif/replays'))
try:
    for c in checks:
        t0 = time.time()
        r = subprocess.run(['/verif/check', c], stdout=subprocess.PIPE, stderr=subprocess.STDOUT, text=True, env=dict(os.environ, VERIF_REPO=copy))
        lines = [l for l in r.stdout.splitlines() if not l.startswith('NOTE') and not l.startswith('KNOWN-FINDING')]
        keep = [l for l in lines if l.startswith(('VIOLATION', '  scenario=', 'OK ', 'HARNESS', 'BUILD'))] or lines[-3:]
        results[c] = {'exit': r.returncode, 'wall_s': round(time.time() - t0, 1), 'output': [l[:1200] for l in keep[:3]]}
        print(c, 'exit', r.returncode, '|'.join(keep[:2])[:400])
finally:
    shutil.rmtree(copy, ignore_errors=True)
    shutil.rmtree('/verif/evidence', ignore_errors=True)
    shutil.copytree(ev_save, '/verif/evidence')
    shutil.rmtree(ev_save, ignore_errors=True)
    for f in set(os.listdir('/verif/replays')) - rp_before:
        os.remove(os.path.join('/verif/replays', f))
meta['checks'] = results
meta['detected_by'] = [c for c, v in results.items() if v['exit'] == 1]
json.dump(meta, open(f'{dst}/run.json', 'w'), indent=1)
