// Command instrument rewrites the non-test Go files of pion/sctp into copies
// in which every synchronisation and nondeterminism site calls a vsim* hook
// (see /verif/sim/zz_vsim_runtime.go). It never edits /repo: it writes the
// copies into an output directory and an overlay.json for `go build -overlay`.
//
// Pass 1 (type-checked, text edits at AST positions):
//
//	x.Lock()/Unlock()/RLock()/RUnlock() on sync.Mutex/RWMutex -> vsimLockM(&x) ...
//	c.Wait()/Signal()/Broadcast() on *sync.Cond              -> vsimCondWait(c) ...
//	o.Do(f) on sync.Once                                      -> vsimOnceDo(&o, f)   (f is not instrumented inside)
//	close(ch)                                                 -> vsimClose(ch)
//	<-ch outside select (value / value,ok)                    -> vsimRecv(ch) / vsimRecv2(ch)
//	go f() / go func(a T){..}(x)                              -> vsimGo(site, func(){f()}) / vsimGo1(site, func(a T){..}, x)
//	for k, v := range <map>                                   -> iteration over vsimMapKeys(m) (seeded order)
//	methods passed to time.AfterFunc                          -> first statement `defer vsimStartCB(recv)()`
//	non-blocking select with a send clause                    -> vsimYield() at the head of the send clause body
//
// Pass 2 (syntactic, repeated until no blocking select is left):
//
//	select without default -> seeded-order non-blocking polls, then the blocking
//	select over the same channel temporaries, then a switch with the bodies.
//
// The tool fails closed (exit 2) on any construct it does not understand and
// prints a census that the caller compares with a textual count.
package main

import (
	"bytes"
	"encoding/json"
	"flag"
	"fmt"
	"go/ast"
	"go/format"
	"go/importer"
	"go/parser"
	"go/token"
	"go/types"
	"os"
	"path/filepath"
	"sort"
	"strings"
)

type edit struct {
	start, end int // byte offsets in the file
	text       string
}

type census struct {
	Lock, Unlock, RLock, RUnlock int
	CondWait, CondSignal, CondBcast int
	OnceDo, Close, Recv, Go, MapRange, Loops, Timers int
	TimerCB, NbSendYield, Select      int
}

var cen census

func fatalf(f string, a ...any) {
	fmt.Fprintf(os.Stderr, "instrument: "+f+"\n", a...)
	os.Exit(2)
}

func main() {
	repo := flag.String("repo", "/repo", "repository root (package directory)")
	out := flag.String("out", "", "output directory for instrumented copies")
	overlay := flag.String("overlay", "", "overlay.json to write")
	extra := flag.String("extra", "", "directory whose *.go files are added to the package via the overlay")
	dropTests := flag.Bool("drop-tests", true, "remove the repository's own _test.go files from the overlaid package")
	flag.Parse()
	if *out == "" || *overlay == "" {
		fatalf("need -out and -overlay")
	}
	if err := os.MkdirAll(*out, 0o755); err != nil {
		fatalf("%v", err)
	}

	ents, err := os.ReadDir(*repo)
	if err != nil {
		fatalf("%v", err)
	}
	fset := token.NewFileSet()
	var files []*ast.File
	var names []string
	src := map[string][]byte{}
	var testFiles []string
	for _, e := range ents {
		n := e.Name()
		if e.IsDir() || !strings.HasSuffix(n, ".go") {
			continue
		}
		if strings.HasSuffix(n, "_test.go") {
			testFiles = append(testFiles, n)
			continue
		}
		p := filepath.Join(*repo, n)
		b, err := os.ReadFile(p)
		if err != nil {
			fatalf("%v", err)
		}
		f, err := parser.ParseFile(fset, p, b, parser.ParseComments)
		if err != nil {
			fatalf("parse %s: %v", n, err)
		}
		files = append(files, f)
		names = append(names, n)
		src[n] = b
	}

	if err := os.Chdir(*repo); err != nil {
		fatalf("%v", err)
	}
	info := &types.Info{
		Types:      map[ast.Expr]types.TypeAndValue{},
		Selections: map[*ast.SelectorExpr]*types.Selection{},
		Uses:       map[*ast.Ident]types.Object{},
		Defs:       map[*ast.Ident]types.Object{},
	}
	conf := types.Config{Importer: importer.ForCompiler(fset, "source", nil), Error: func(err error) {}}
	var terr error
	conf.Error = func(err error) {
		if terr == nil {
			terr = err
		}
	}
	_, _ = conf.Check("github.com/pion/sctp", fset, files, info)
	if terr != nil {
		fatalf("type check: %v", terr)
	}

	ov := map[string]string{}
	for i, f := range files {
		n := names[i]
		p1 := pass1(fset, f, info, src[n], n)
		p2 := pass2(p1, n)
		fb, err := format.Source(p2)
		if err != nil {
			_ = os.WriteFile(filepath.Join(*out, n+".broken"), p2, 0o644)
			fatalf("format %s: %v", n, err)
		}
		op := filepath.Join(*out, n)
		if err := os.WriteFile(op, fb, 0o644); err != nil {
			fatalf("%v", err)
		}
		ov[filepath.Join(*repo, n)] = op
	}
	if *dropTests {
		for _, n := range testFiles {
			ov[filepath.Join(*repo, n)] = ""
		}
	}
	if *extra != "" {
		ents, err := os.ReadDir(*extra)
		if err != nil {
			fatalf("%v", err)
		}
		for _, e := range ents {
			if strings.HasSuffix(e.Name(), ".go") {
				ov[filepath.Join(*repo, e.Name())] = filepath.Join(*extra, e.Name())
			}
		}
	}
	ob, _ := json.MarshalIndent(map[string]any{"Replace": ov}, "", " ")
	if err := os.WriteFile(*overlay, ob, 0o644); err != nil {
		fatalf("%v", err)
	}
	cb, _ := json.Marshal(cen)
	fmt.Println(string(cb))
}

func isNamed(t types.Type, pkg, name string) bool {
	if t == nil {
		return false
	}
	if p, ok := t.(*types.Pointer); ok {
		t = p.Elem()
	}
	n, ok := t.(*types.Named)
	if !ok {
		return false
	}
	o := n.Obj()
	return o.Pkg() != nil && o.Pkg().Path() == pkg && o.Name() == name
}

func isPointer(t types.Type) bool {
	_, ok := t.(*types.Pointer)
	return ok
}

// pass1 applies the type-directed text edits.
func pass1(fset *token.FileSet, f *ast.File, info *types.Info, src []byte, fname string) []byte {
	var edits []edit
	off := func(p token.Pos) int { return fset.Position(p).Offset }
	text := func(n ast.Node) string { return string(src[off(n.Pos()):off(n.End())]) }
	site := func(n ast.Node) string {
		p := fset.Position(n.Pos())
		return fmt.Sprintf("%s:%d", strings.TrimSuffix(fname, ".go"), p.Line)
	}
	add := func(s, e token.Pos, t string) { edits = append(edits, edit{off(s), off(e), t}) }

	// methods used as time.AfterFunc callbacks: collect (type name, method name)
	cbMethods := map[string]bool{}
	ast.Inspect(f, func(n ast.Node) bool {
		call, ok := n.(*ast.CallExpr)
		if !ok {
			return true
		}
		sel, ok := call.Fun.(*ast.SelectorExpr)
		if !ok || sel.Sel.Name != "AfterFunc" {
			return true
		}
		if id, ok := sel.X.(*ast.Ident); !ok || id.Name != "time" {
			return true
		}
		if len(call.Args) != 2 {
			fatalf("%s: odd AfterFunc", site(call))
		}
		switch a := call.Args[1].(type) {
		case *ast.SelectorExpr:
			s := info.Selections[a]
			if s == nil || s.Kind() != types.MethodVal {
				fatalf("%s: AfterFunc arg is not a method value", site(call))
			}
			recv := s.Recv()
			if p, ok := recv.(*types.Pointer); ok {
				recv = p.Elem()
			}
			cbMethods[recv.(*types.Named).Obj().Name()+"."+a.Sel.Name] = true
		default:
			fatalf("%s: AfterFunc with unsupported callback form", site(call))
		}
		return true
	})
	for _, d := range f.Decls {
		fd, ok := d.(*ast.FuncDecl)
		if !ok || fd.Recv == nil || fd.Body == nil || len(fd.Recv.List) != 1 {
			continue
		}
		rt := fd.Recv.List[0].Type
		if s, ok := rt.(*ast.StarExpr); ok {
			rt = s.X
		}
		id, ok := rt.(*ast.Ident)
		if !ok || !cbMethods[id.Name+"."+fd.Name.Name] {
			continue
		}
		if len(fd.Recv.List[0].Names) != 1 {
			fatalf("%s: callback method without receiver name", site(fd))
		}
		rn := fd.Recv.List[0].Names[0].Name
		add(fd.Body.Lbrace+1, fd.Body.Lbrace+1, fmt.Sprintf("\ndefer vsimStartCB(%s)()\n", rn))
		cen.TimerCB++
	}

	inSelectComm := map[ast.Node]bool{} // recv expressions that are select comm operands
	skipLit := map[*ast.FuncLit]bool{}  // function literals passed to Once.Do

	var walk func(n ast.Node) bool
	walk = func(n ast.Node) bool {
		switch x := n.(type) {
		case *ast.FuncLit:
			if skipLit[x] {
				return false
			}
		case *ast.SelectStmt:
			hasDefault := false
			ncomm := 0
			for _, c := range x.Body.List {
				cc := c.(*ast.CommClause)
				if cc.Comm == nil {
					hasDefault = true
					continue
				}
				ncomm++
				switch s := cc.Comm.(type) {
				case *ast.ExprStmt:
					inSelectComm[s.X] = true
				case *ast.AssignStmt:
					if len(s.Rhs) == 1 {
						inSelectComm[s.Rhs[0]] = true
					}
				}
			}
			if hasDefault {
				if ncomm != 1 {
					fatalf("%s: non-blocking select with %d comm clauses is not supported", site(x), ncomm)
				}
				for _, c := range x.Body.List {
					cc := c.(*ast.CommClause)
					if _, ok := cc.Comm.(*ast.SendStmt); ok {
						add(cc.Colon+1, cc.Colon+1, fmt.Sprintf(" vsimYield(%q);", site(cc)))
						cen.NbSendYield++
					}
				}
			}
		case *ast.SendStmt:
			// only allowed as a select comm
		case *ast.GoStmt:
			call := x.Call
			switch fn := call.Fun.(type) {
			case *ast.FuncLit:
				switch len(call.Args) {
				case 0:
					add(x.Pos(), fn.Pos(), fmt.Sprintf("vsimGo(%q, ", site(x)))
					add(fn.End(), call.End(), ")")
				case 1:
					add(x.Pos(), fn.Pos(), fmt.Sprintf("vsimGo1(%q, ", site(x)))
					add(fn.End(), call.Args[0].Pos(), ", ")
					add(call.Args[0].End(), call.End(), ")")
				default:
					fatalf("%s: go func literal with %d args", site(x), len(call.Args))
				}
			default:
				if len(call.Args) != 0 {
					fatalf("%s: go statement with arguments on a non-literal", site(x))
				}
				add(x.Pos(), call.Pos(), fmt.Sprintf("vsimGo(%q, func() { ", site(x)))
				add(call.End(), call.End(), " })")
			}
			cen.Go++
		case *ast.RangeStmt:
			t := info.TypeOf(x.X)
			if t == nil {
				fatalf("%s: range with unknown type", site(x))
			}
			switch t.Underlying().(type) {
			case *types.Chan:
				fatalf("%s: range over channel is not supported", site(x))
			case *types.Map:
				if x.Tok != token.DEFINE {
					fatalf("%s: range over map without := is not supported", site(x))
				}
				id := fmt.Sprintf("%d", off(x.Pos()))
				m := text(x.X)
				hdr := fmt.Sprintf("for _, vsimK%s := range vsimMapKeys(%s) {", id, m)
				var body strings.Builder
				keyName, valName := "_", "_"
				if x.Key != nil {
					keyName = text(x.Key)
				}
				if x.Value != nil {
					valName = text(x.Value)
				}
				if valName != "_" {
					fmt.Fprintf(&body, " %s, vsimOk%s := (%s)[vsimK%s]; if !vsimOk%s { continue }; _ = %s;", valName, id, m, id, id, valName)
				} else {
					fmt.Fprintf(&body, " if _, vsimOk%s := (%s)[vsimK%s]; !vsimOk%s { continue };", id, m, id, id)
				}
				if keyName != "_" {
					fmt.Fprintf(&body, " %s := vsimK%s; _ = %s;", keyName, id, keyName)
				}
				add(x.Pos(), x.Body.Lbrace+1, hdr+body.String()+" vsimLoopTick();")
				cen.MapRange++
			default:
				add(x.Body.Lbrace+1, x.Body.Lbrace+1, " vsimLoopTick();")
			}
			cen.Loops++
		case *ast.ForStmt:
			// bounded work per scheduling step (C03): every loop iteration is counted
			add(x.Body.Lbrace+1, x.Body.Lbrace+1, " vsimLoopTick();")
			cen.Loops++
		case *ast.UnaryExpr:
			if x.Op == token.ARROW && !inSelectComm[x] {
				// blocking receive outside select
				add(x.Pos(), x.X.Pos(), "vsimRecvPLACEHOLDER(")
				add(x.X.End(), x.X.End(), ")")
				cen.Recv++
			}
		case *ast.CallExpr:
			if id, ok := x.Fun.(*ast.Ident); ok && id.Name == "close" && len(x.Args) == 1 {
				if _, isBuiltin := info.Uses[id].(*types.Builtin); isBuiltin {
					add(id.Pos(), id.End(), "vsimClose")
					cen.Close++
				}
			}
			sel, ok := x.Fun.(*ast.SelectorExpr)
			if !ok {
				return true
			}
			// timers: the simulator keeps a list of pending expiries (the network may align a delivery with one)
			if id, ok := sel.X.(*ast.Ident); ok {
				if pn, ok := info.Uses[id].(*types.PkgName); ok && pn.Imported().Path() == "time" {
					switch sel.Sel.Name {
					case "AfterFunc":
						add(x.Pos(), x.Lparen+1, "vsimAfterFunc(")
						cen.Timers++
					case "NewTimer":
						add(x.Pos(), x.Lparen+1, "vsimNewTimer(")
						cen.Timers++
					}
					return true
				}
			}
			if trt := info.TypeOf(sel.X); trt != nil && isNamed(trt, "time", "Timer") {
				switch sel.Sel.Name {
				case "Reset":
					add(x.Pos(), x.Lparen+1, fmt.Sprintf("vsimTimerReset(%s, ", text(sel.X)))
					cen.Timers++
				case "Stop":
					add(x.Pos(), x.Lparen+1, fmt.Sprintf("vsimTimerStop(%s", text(sel.X)))
					cen.Timers++
				}
				return true
			}
			rt := info.TypeOf(sel.X)
			recvText := text(sel.X)
			addr := "&" + recvText
			if rt != nil && isPointer(rt) {
				addr = recvText
			}
			repl := func(fn string) {
				add(x.Pos(), x.End(), fmt.Sprintf("%s(%s)", fn, addr))
			}
			switch {
			case isNamed(rt, "sync", "Mutex"):
				switch sel.Sel.Name {
				case "Lock":
					repl("vsimLockM")
					cen.Lock++
				case "Unlock":
					repl("vsimUnlockM")
					cen.Unlock++
				default:
					fatalf("%s: unsupported sync.Mutex method %s", site(x), sel.Sel.Name)
				}
				return false
			case isNamed(rt, "sync", "RWMutex"):
				switch sel.Sel.Name {
				case "Lock":
					repl("vsimLockRW")
					cen.Lock++
				case "Unlock":
					repl("vsimUnlockRW")
					cen.Unlock++
				case "RLock":
					repl("vsimRLockRW")
					cen.RLock++
				case "RUnlock":
					repl("vsimRUnlockRW")
					cen.RUnlock++
				default:
					fatalf("%s: unsupported sync.RWMutex method %s", site(x), sel.Sel.Name)
				}
				return false
			case isNamed(rt, "sync", "Cond"):
				switch sel.Sel.Name {
				case "Wait":
					repl("vsimCondWait")
					cen.CondWait++
				case "Signal":
					repl("vsimCondSignal")
					cen.CondSignal++
				case "Broadcast":
					repl("vsimCondBroadcast")
					cen.CondBcast++
				default:
					fatalf("%s: unsupported sync.Cond method %s", site(x), sel.Sel.Name)
				}
				return false
			case isNamed(rt, "sync", "Once"):
				if sel.Sel.Name != "Do" || len(x.Args) != 1 {
					fatalf("%s: unsupported sync.Once use", site(x))
				}
				if fl, ok := x.Args[0].(*ast.FuncLit); ok {
					skipLit[fl] = true
				}
				add(x.Pos(), x.Args[0].Pos(), fmt.Sprintf("vsimOnceDo(%s, ", addr))
				cen.OnceDo++
				return true
			case isNamed(rt, "sync", "WaitGroup"), isNamed(rt, "sync", "Map"), isNamed(rt, "sync", "Pool"):
				fatalf("%s: unsupported sync type", site(x))
			}
		}
		return true
	}
	ast.Inspect(f, walk)

	// Standalone send statements (outside select) are not expected.
	ast.Inspect(f, func(n ast.Node) bool {
		if bs, ok := n.(*ast.BlockStmt); ok {
			for _, s := range bs.List {
				if _, ok := s.(*ast.SendStmt); ok {
					fatalf("%s: blocking send statement outside select is not supported", site(s))
				}
			}
		}
		return true
	})

	// resolve receive placeholders: value,ok form needs vsimRecv2
	out := applyEdits(src, edits)
	// Re-parse to distinguish `v, ok := vsimRecvPLACEHOLDER(ch)`.
	fs2 := token.NewFileSet()
	f2, err := parser.ParseFile(fs2, fname, out, parser.ParseComments)
	if err != nil {
		_ = os.WriteFile("/tmp/vsim-broken-"+fname, out, 0o644)
		fatalf("reparse after pass1 %s: %v", fname, err)
	}
	var e2 []edit
	o2 := func(p token.Pos) int { return fs2.Position(p).Offset }
	two := map[*ast.CallExpr]bool{}
	ast.Inspect(f2, func(n ast.Node) bool {
		switch s := n.(type) {
		case *ast.AssignStmt:
			if len(s.Lhs) == 2 && len(s.Rhs) == 1 {
				if c, ok := s.Rhs[0].(*ast.CallExpr); ok {
					if id, ok := c.Fun.(*ast.Ident); ok && id.Name == "vsimRecvPLACEHOLDER" {
						two[c] = true
					}
				}
			}
		case *ast.ValueSpec:
			if len(s.Names) == 2 && len(s.Values) == 1 {
				if c, ok := s.Values[0].(*ast.CallExpr); ok {
					if id, ok := c.Fun.(*ast.Ident); ok && id.Name == "vsimRecvPLACEHOLDER" {
						two[c] = true
					}
				}
			}
		}
		return true
	})
	ast.Inspect(f2, func(n ast.Node) bool {
		if c, ok := n.(*ast.CallExpr); ok {
			if id, ok := c.Fun.(*ast.Ident); ok && id.Name == "vsimRecvPLACEHOLDER" {
				name := "vsimRecv"
				if two[c] {
					name = "vsimRecv2"
				}
				e2 = append(e2, edit{o2(id.Pos()), o2(id.End()), name})
			}
		}
		return true
	})
	return applyEdits(out, e2)
}

func applyEdits(src []byte, edits []edit) []byte {
	sort.SliceStable(edits, func(i, j int) bool {
		if edits[i].start != edits[j].start {
			return edits[i].start < edits[j].start
		}
		return edits[i].end < edits[j].end
	})
	var out bytes.Buffer
	pos := 0
	for _, e := range edits {
		if e.start < pos {
			fatalf("overlapping edits at offset %d (%q)", e.start, e.text)
		}
		out.Write(src[pos:e.start])
		out.WriteString(e.text)
		pos = e.end
	}
	out.Write(src[pos:])
	return out.Bytes()
}

// pass2 rewrites blocking selects one at a time, innermost first.
func pass2(src []byte, fname string) []byte {
	for iter := 0; ; iter++ {
		if iter > 200 {
			fatalf("%s: select rewriting does not terminate", fname)
		}
		fset := token.NewFileSet()
		f, err := parser.ParseFile(fset, fname, src, parser.ParseComments)
		if err != nil {
			_ = os.WriteFile("/tmp/vsim-broken-"+fname, src, 0o644)
			fatalf("reparse in pass2 %s: %v", fname, err)
		}
		off := func(p token.Pos) int { return fset.Position(p).Offset }
		text := func(n ast.Node) string { return string(src[off(n.Pos()):off(n.End())]) }

		var target *ast.SelectStmt
		var targetLabel *ast.LabeledStmt
		var find func(n ast.Node) bool
		labeled := map[ast.Stmt]*ast.LabeledStmt{}
		ast.Inspect(f, func(n ast.Node) bool {
			if l, ok := n.(*ast.LabeledStmt); ok {
				labeled[l.Stmt] = l
			}
			return true
		})
		find = func(n ast.Node) bool {
			s, ok := n.(*ast.SelectStmt)
			if !ok {
				return true
			}
			if !needsRewrite(s) {
				return true
			}
			// innermost first: does it contain another select needing a rewrite?
			inner := false
			ast.Inspect(s.Body, func(m ast.Node) bool {
				if t, ok := m.(*ast.SelectStmt); ok && t != s && needsRewrite(t) {
					inner = true
				}
				return !inner
			})
			if !inner && target == nil {
				target = s
				targetLabel = labeled[s]
			}
			return true
		}
		ast.Inspect(f, find)
		if target == nil {
			return src
		}
		if targetLabel != nil {
			fatalf("%s:%d: labeled select is not supported", fname, fset.Position(target.Pos()).Line)
		}
		id := fmt.Sprintf("%d_%d", iter, off(target.Pos()))
		line := fset.Position(target.Pos()).Line
		_ = line
		siteStr := fmt.Sprintf("%s:select@%d", strings.TrimSuffix(fname, ".go"), iter)
		var pre, polls, blocking, sw strings.Builder
		n := len(target.Body.List)
		fmt.Fprintf(&pre, "{\nvsimH%s := vsimBlocking(%q)\n", id, siteStr)
		for i, c := range target.Body.List {
			cc := c.(*ast.CommClause)
			ch := fmt.Sprintf("vsimC%s_%d", id, i)
			var bodyTxt string
			if len(cc.Body) > 0 {
				bodyTxt = string(src[off(cc.Body[0].Pos()):off(cc.Body[len(cc.Body)-1].End())])
			}
			// keep trailing comments out; bodies are statements only
			switch s := cc.Comm.(type) {
			case *ast.ExprStmt:
				u, ok := s.X.(*ast.UnaryExpr)
				if !ok || u.Op != token.ARROW {
					fatalf("%s:%d: unsupported select comm", fname, line)
				}
				fmt.Fprintf(&pre, "%s := %s\n", ch, text(u.X))
				fmt.Fprintf(&polls, "case %d:\nselect {\ncase <-%s:\nvsimSel%s = %d\ndefault:\n}\n", i, ch, id, i)
				fmt.Fprintf(&blocking, "case <-%s:\nvsimSel%s = %d\n", ch, id, i)
				fmt.Fprintf(&sw, "case %d:\n%s\n", i, bodyTxt)
			case *ast.AssignStmt:
				if s.Tok != token.DEFINE || len(s.Rhs) != 1 || len(s.Lhs) > 2 {
					fatalf("%s:%d: unsupported select receive assignment", fname, line)
				}
				u, ok := s.Rhs[0].(*ast.UnaryExpr)
				if !ok || u.Op != token.ARROW {
					fatalf("%s:%d: unsupported select comm", fname, line)
				}
				fmt.Fprintf(&pre, "%s := %s\n", ch, text(u.X))
				rv := fmt.Sprintf("vsimR%s_%d", id, i)
				rok := fmt.Sprintf("vsimO%s_%d", id, i)
				fmt.Fprintf(&pre, "%s := vsimZero(%s); var %s bool; _, _ = %s, %s\n", rv, ch, rok, rv, rok)
				fmt.Fprintf(&polls, "case %d:\nselect {\ncase %s, %s = <-%s:\nvsimSel%s = %d\ndefault:\n}\n", i, rv, rok, ch, id, i)
				fmt.Fprintf(&blocking, "case %s, %s = <-%s:\nvsimSel%s = %d\n", rv, rok, ch, id, i)
				fmt.Fprintf(&sw, "case %d:\n", i)
				l0 := text(s.Lhs[0])
				if l0 != "_" {
					fmt.Fprintf(&sw, "%s := %s; _ = %s\n", l0, rv, l0)
				}
				if len(s.Lhs) == 2 {
					l1 := text(s.Lhs[1])
					if l1 != "_" {
						fmt.Fprintf(&sw, "%s := %s; _ = %s\n", l1, rok, l1)
					}
				}
				fmt.Fprintf(&sw, "%s\n", bodyTxt)
			case *ast.SendStmt:
				val := fmt.Sprintf("vsimV%s_%d", id, i)
				fmt.Fprintf(&pre, "%s := %s\n%s := %s\n", ch, text(s.Chan), val, text(s.Value))
				fmt.Fprintf(&polls, "case %d:\nselect {\ncase %s <- %s:\nvsimSel%s = %d\ndefault:\n}\n", i, ch, val, id, i)
				fmt.Fprintf(&blocking, "case %s <- %s:\nvsimSel%s = %d\n", ch, val, id, i)
				fmt.Fprintf(&sw, "case %d:\n%s\n", i, bodyTxt)
			default:
				fatalf("%s:%d: unsupported select comm clause", fname, line)
			}
		}
		var outb strings.Builder
		outb.WriteString(pre.String())
		fmt.Fprintf(&outb, "vsimSel%s := -1\n", id)
		if n > 1 {
			fmt.Fprintf(&outb, "for _, vsimI%s := range vsimPerm(%d) {\nswitch vsimI%s {\n%s}\nif vsimSel%s >= 0 {\nbreak\n}\n}\n", id, n, id, polls.String(), id)
		}
		fmt.Fprintf(&outb, "if vsimSel%s < 0 {\nselect { // vsim:generated\n%s}\n}\n", id, blocking.String())
		fmt.Fprintf(&outb, "vsimWoke(vsimH%s)\nswitch vsimSel%s {\n%sdefault:\npanic(\"vsim: unreachable select\")\n}\n}", id, id, sw.String())
		cen.Select++
		src = applyEdits(src, []edit{{off(target.Pos()), off(target.End()), outb.String()}})
	}
}

// needsRewrite: a select without default whose clause bodies are not the
// generated `vsimSel... = i` assignments.
func needsRewrite(s *ast.SelectStmt) bool {
	if len(s.Body.List) == 0 {
		fatalf("empty select is not supported")
	}
	for _, c := range s.Body.List {
		cc := c.(*ast.CommClause)
		if cc.Comm == nil {
			return false // has default: non-blocking
		}
	}
	// generated selects: every body is exactly one assignment to vsimSel*
	gen := true
	for _, c := range s.Body.List {
		cc := c.(*ast.CommClause)
		if len(cc.Body) != 1 {
			gen = false
			break
		}
		as, ok := cc.Body[0].(*ast.AssignStmt)
		if !ok || len(as.Lhs) != 1 {
			gen = false
			break
		}
		id, ok := as.Lhs[0].(*ast.Ident)
		if !ok || !strings.HasPrefix(id.Name, "vsimSel") {
			gen = false
			break
		}
	}
	return !gen
}
