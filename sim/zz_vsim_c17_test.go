package sctp

// C17: interleaving is used exactly as negotiated; the stream scheduler is fair.
// Wire-side oracles over the order of first emissions (= order in which chunks
// were taken from the pending queue, TSNs are assigned at that moment).

import (
	"fmt"
	"sort"
	"time"
)

func init() {
	registerScenario("C17", scenarioScheduler)
}

// checkFragmentOrder is called at the first emission of every DATA / I-DATA chunk.
func (m *wireMon) checkFragmentOrder(X int, c *wChunk, ti *tsnInfo) {
	if !m.props["C17"] {
		return
	}
	w := m.w
	sm := m.s[X]
	if c.typ == wtDATA {
		// without interleaving the fragments of one message occupy consecutive TSNs, B first, E last
		if !c.begin {
			prev := sm.sent[c.tsn-1]
			if prev == nil || prev.idata || prev.sid != c.sid || prev.e || prev.ppi != c.ppi || prev.u != c.unordered || (!c.unordered && prev.ssn != c.ssn) {
				w.violate("C17", "fragments-not-consecutive", "%s emitted a continuation fragment (TSN %d, stream %d, ppi %d) but TSN %d is not the preceding fragment of the same message (%v)", m.name(X), c.tsn, c.sid, c.ppi, c.tsn-1, prev)
			}
		} else if prev := sm.sent[c.tsn-1]; prev != nil && !prev.idata && !prev.e {
			w.violate("C17", "message-interrupted", "%s started a new message at TSN %d (stream %d) although the message of TSN %d (stream %d) was not finished; interleaving is not negotiated", m.name(X), c.tsn, c.sid, prev.tsn, prev.sid)
		}
		return
	}
	// I-DATA: FSN 0,1,2,... in TSN order per (stream, U, MID), B on FSN 0 only
	if c.begin {
		return
	}
	want := c.fsn - 1
	found := false
	var bad *tsnInfo
	var badF uint32
	// a re-opened stream starts its MIDs again: only the fragments from the latest first
	// fragment of this (stream, U, MID) onwards belong to this message
	var start *tsnInfo
	for _, o := range sm.sent {
		if o.idata && o.b && o.sid == c.sid && o.u == c.unordered && o.mid == c.mid && wSNA32LT(o.tsn, c.tsn) && (start == nil || wSNA32LT(start.tsn, o.tsn)) {
			start = o
		}
	}
	for _, o := range sm.sent {
		if o.idata && o.sid == c.sid && o.u == c.unordered && o.mid == c.mid && o != ti && start != nil && !wSNA32LT(o.tsn, start.tsn) {
			f := o.fsn
			if o.b {
				f = 0
			}
			if f == want && wSNA32LT(o.tsn, c.tsn) {
				found = true
			}
			if f >= c.fsn && wSNA32LT(o.tsn, c.tsn) && (bad == nil || wSNA32LT(o.tsn, bad.tsn)) {
				bad, badF = o, f
			}
		}
	}
	if bad != nil {
		w.violate("C17", "fsn-out-of-order", "%s emitted fragment FSN %d of message (stream %d, MID %d) at TSN %d after FSN %d at TSN %d", m.name(X), c.fsn, c.sid, c.mid, c.tsn, badF, bad.tsn)
		return
	}
	if !found {
		w.violate("C17", "fsn-gap", "%s emitted fragment FSN %d of message (stream %d, MID %d, U=%v) at TSN %d but FSN %d was never emitted before it", m.name(X), c.fsn, c.sid, c.mid, c.unordered, c.tsn, want)
	}
}

type popRec struct {
	tsn  uint32
	sid  uint16
	n    int
	seq  int64 // emission event sequence number
	msg  *msgRec
}

// fairnessCheck evaluates the scheduler bounds over the recorded pop order of sender X.
func (m *wireMon) fairnessCheck(X int, x *xfer) {
	w := m.w
	sm := m.s[X]
	cfg := w.eps[X].cfg
	if !(m.s[0].extIData && m.s[1].extIData) {
		return
	}
	var pops []popRec
	for _, ti := range sm.sent {
		pops = append(pops, popRec{tsn: ti.tsn, sid: ti.sid, n: ti.n, msg: ti.msg, seq: ti.firstSeq})
	}
	sort.Slice(pops, func(i, j int) bool { return wSNA32LT(pops[i].tsn, pops[j].tsn) })
	if len(pops) < 3 {
		return
	}
	lmax := 0
	for _, p := range pops {
		if p.n > lmax {
			lmax = p.n
		}
	}
	// per stream: messages in write order with their sizes; emitted bytes are consumed pop by pop
	type sq struct {
		msgs    []*msgRec
		emitted map[*msgRec]int
	}
	streams := map[uint16]*sq{}
	for _, d := range x.dirs {
		if d.from != X {
			continue
		}
		streams[d.sid] = &sq{msgs: d.msgs, emitted: map[*msgRec]int{}}
	}
	sids := make([]int, 0, len(streams))
	for sid := range streams {
		sids = append(sids, int(sid))
	}
	sort.Ints(sids)
	// backlog[k][sid]: after pop k the stream still has queued data of messages whose write had
	// returned before pop k was emitted
	backlog := make([]map[uint16]bool, len(pops))
	for k, p := range pops {
		if q := streams[p.sid]; q != nil && p.msg != nil {
			q.emitted[p.msg] += p.n
		}
		b := map[uint16]bool{}
		for sid, q := range streams {
			for _, msg := range q.msgs {
				if msg.done && msg.err == nil && msg.returnSeq < p.seq && q.emitted[msg] < msg.size {
					b[sid] = true
					break
				}
			}
		}
		backlog[k] = b
	}
	weight := func(sid uint16) float64 {
		if cfg.Scheduler != "rr" {
			if wt, ok := cfg.Weights[sid]; ok && wt != 0 {
				return float64(wt)
			}
		}
		return 1
	}
	if cfg.Scheduler == "rr" {
		// between two consecutive services of s (backlogged throughout), every other stream that is
		// backlogged throughout is served exactly once
		last := map[uint16]int{}
		for k, p := range pops {
			if a, ok := last[p.sid]; ok {
				through := true
				for i := a; i < k; i++ {
					if !backlog[i][p.sid] {
						through = false
					}
				}
				if through {
					for _, js := range sids {
						j := uint16(js)
						if j == p.sid {
							continue
						}
						jt := true
						for i := a; i < k; i++ {
							if !backlog[i][j] {
								jt = false
							}
						}
						if a == 0 || !backlog[a-1][j] {
							jt = false
						}
						if !jt {
							continue
						}
						cnt := 0
						for i := a + 1; i < k; i++ {
							if pops[i].sid == j {
								cnt++
							}
						}
						m.count("c17.rr-rounds-checked")
						if cnt != 1 {
							w.violate("C17", "round-robin-unfair", "%s (round robin): between two consecutive chunks of stream %d (TSN %d and %d) stream %d, backlogged throughout, was served %d times", m.name(X), p.sid, pops[a].tsn, p.tsn, j, cnt)
							return
						}
					}
				}
			}
			last[p.sid] = k
		}
		return
	}
	// weighted fair queueing (the default scheduler): pairwise bound over every interval in which both are backlogged
	for ai := 0; ai < len(sids); ai++ {
		for bi := ai + 1; bi < len(sids); bi++ {
			i, j := uint16(sids[ai]), uint16(sids[bi])
			wi, wj := weight(i), weight(j)
			bound := float64(lmax)/wi + float64(lmax)/wj
			inRun := false
			var d, dmin, dmax float64
			for k, p := range pops {
				both := k > 0 && backlog[k-1][i] && backlog[k-1][j]
				if !both {
					inRun = false
					continue
				}
				if !inRun {
					inRun, d, dmin, dmax = true, 0, 0, 0
				}
				if p.sid == i {
					d += float64(p.n) / wi
				} else if p.sid == j {
					d -= float64(p.n) / wj
				}
				if d < dmin {
					dmin = d
				}
				if d > dmax {
					dmax = d
				}
				m.count("c17.wfq-steps-checked")
				if dmax-dmin > bound+1e-9 {
					w.violate("C17", "wfq-unfair", "%s (WFQ): streams %d (weight %v) and %d (weight %v), both continuously backlogged, differ by %.1f weight-normalised bytes at TSN %d; the bound is one maximum chunk (%d bytes) per stream = %.1f", m.name(X), i, wi, j, wj, dmax-dmin, p.tsn, lmax, bound)
					return
				}
			}
		}
	}
}

func scenarioScheduler(w *world) {
	cfg := genConfig(w, cfgOpts{wrapBias: false, maxLossPPM: 100000})
	tp := w.wtape
	for i := range cfg.Side {
		cfg.Side[i].Interleaving = true
		cfg.Side[i].Scheduler = pick(tp, "rr", "wfq", "wfq", "")
		cfg.Side[i].BlockWrite = false
		cfg.Side[i].MinCwnd = 0
		if cfg.Side[i].Scheduler == "wfq" {
			cfg.Side[i].Weights = map[uint16]uint16{}
			for sid := uint16(0); sid < 8; sid++ {
				if tp.intn(2) == 0 {
					cfg.Side[i].Weights[sid] = uint16(1 + tp.intn(6))
				}
			}
		} else {
			cfg.Side[i].Weights = nil
		}
		if cfg.Side[i].RecvBuf != 0 && cfg.Side[i].RecvBuf < 64*1024 {
			cfg.Side[i].RecvBuf = 0
		}
	}
	if cfg.Fault[0].LatencyUs < 5000 {
		for i := range cfg.Fault {
			cfg.Fault[i].LatencyUs = 5000 + tp.intn(50000)
		}
	}
	w.setup(cfg)
	x := newXfer(w)
	mon := w.installMonitor(x)
	w.net.faultsOn = false
	if !w.connect(120*time.Second) || w.eps[0].connErr != nil || w.eps[1].connErr != nil {
		if w.viol == nil && w.aborted == "" {
			w.violate("C04", "no-faults-handshake", "fault-free handshake failed: %v / %v", w.eps[0].connErr, w.eps[1].connErr)
		}
		return
	}
	w.net.faultsOn = true
	// several streams of one sender, all written at once so that they are backlogged together
	n := 2 + tp.intn(5)
	from := tp.intn(2)
	frag := int(cfg.Side[from].MTU)
	if frag == 0 {
		frag = 1191
	}
	frag -= 32
	for i := 0; i < n; i++ {
		d := &xferDir{sid: uint16(i), from: from, relType: ReliabilityTypeReliable, unordered: tp.intn(3) == 0, preopen: true}
		k := 1 + tp.intn(6)
		for j := 0; j < k; j++ {
			d.sizes = append(d.sizes, pick(tp, frag*3, frag*8, frag+1, frag*2-1, 10, frag*20, 3000)+tp.intn(100))
		}
		x.dirs = append(x.dirs, d)
	}
	// and a little traffic the other way
	x.dirs = append(x.dirs, &xferDir{sid: 20, from: 1 - from, relType: ReliabilityTypeReliable, sizes: []int{100, 2000, 50}, preopen: true})
	runXfer(w, x, mon, false, false)
	if w.stopped() {
		return
	}
	mon.fairnessCheck(from, x)
	if w.viol == nil {
		w.probe(fmt.Sprintf("fairness-checked-%s", map[string]string{"": "wfq-default", "wfq": "wfq", "rr": "rr"}[cfg.Side[from].Scheduler]))
	}
}
