//go:build !race

package sctp

import "sync"

const vsimRaceBuild = false

func vsimRaceOff() {}
func vsimRaceOn()  {}

func vsimHLock(m *sync.Mutex)   { m.Lock() }
func vsimHUnlock(m *sync.Mutex) { m.Unlock() }
