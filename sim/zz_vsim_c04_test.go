package sctp

// C04: the handshake reaches agreement under packet faults and fails cleanly otherwise.

import (
	"fmt"
	"time"
)

func init() {
	registerScenario("C04", scenarioHandshake)
}

// snapTokens creates the out-of-band INIT tokens of both sides and teaches the monitor.
func (w *world) snapTokens(mon *wireMon) (tok [2][]byte, err error) {
	for side := 0; side < 2; side++ {
		ep := w.eps[side]
		w.sim.cur = &vsimTask{name: "driver", owner: ep.name, resume: make(chan struct{}, 1)}
		tok[side], err = GenerateOutOfBandToken(toClientOpts(w.options(side))...)
		w.sim.cur = nil
		if err != nil {
			return tok, err
		}
		raw := append(make([]byte, 12), tok[side]...)
		for len(raw)%4 != 0 {
			raw = append(raw, 0)
		}
		if p, derr := wDecodePacket(raw); derr == nil && len(p.chunks) == 1 && p.chunks[0].typ == wtINIT {
			mon.s[side].learnInit(p.chunks[0])
		} else {
			return tok, fmt.Errorf("token of %s is not an INIT chunk: %v", ep.name, derr)
		}
	}
	return tok, nil
}

func (w *world) connectSNAP(tok [2][]byte, limit time.Duration) bool {
	for side := 0; side < 2; side++ {
		ep := w.eps[side]
		side := side
		w.sim.spawnClient("connect."+ep.name, ep.name, func() {
			call := w.beginCall(ep, "connect", -1)
			opts := append(w.options(side), WithSNAP(tok[side], tok[1-side]))
			a, err := ClientWithOptions(toClientOpts(opts)...)
			ep.assoc, ep.connErr, ep.connDone = a, err, true
			w.endCall(call, err)
			w.apiEvent(ep, "connect-snap", fmt.Sprintf("err=%v", err))
		})
	}
	return w.run(func() bool { return w.eps[0].connDone && w.eps[1].connDone }, w.now()+limit) == stopCond
}

// t1Budget: the time after which a connect call against a silent peer must have failed:
// RTO.Initial = 1 s doubling up to RTO.max, Max.Init.Retransmits = 8 (RFC 9260 Sec 16), one RTO of slack.
func t1Budget(rtoMax time.Duration) time.Duration {
	total := time.Duration(0)
	rto := time.Second
	for i := 0; i <= 8; i++ {
		d := rto
		if d > rtoMax {
			d = rtoMax
		}
		total += d
		rto *= 2
	}
	slack := rto
	if slack > rtoMax {
		slack = rtoMax
	}
	return total + slack
}

// c04Sweep: the systematic leg. The run's index (seed - sweep_base) is decoded into one cell of
//   {client/server, server/client, client/client} x interleaving A,B x zero-checksum A,B   (48 configurations)
//   x every placement of at most k faults from {drop, duplicate, delay past the next retransmission,
//     swap with successor} on the first n packets of each direction,
// so that a batch of consecutive seeds as large as the space covers every cell exactly once. The
// remaining dimensions (MTU, buffers, RTO.max, latency, initial TSNs, schedule) stay seeded.
func c04SweepSize(n, k int) int {
	P, A := 2*n, 4
	total, c, a := 0, 1, 1
	for j := 0; j <= k; j++ {
		total += c * a
		c = c * (P - j) / (j + 1)
		a *= A
	}
	return total * 48
}

func c04SweepDecode(w *world, cfg *runConfig) {
	n, k := w.params["sweep_n"], w.params["sweep_k"]
	space := c04SweepSize(n, k)
	idx := int(w.seed-uint64(w.params["sweep_base"])) % space
	if w.extra == nil {
		w.extra = map[string]any{}
	}
	w.extra["sweep_index"], w.extra["sweep_space"] = idx, space
	c := idx % 48
	pl := idx / 48
	roles := [][2]string{{"client", "server"}, {"server", "client"}, {"client", "client"}}[c%3]
	c /= 3
	for i := 0; i < 2; i++ {
		cfg.Side[i].Role = roles[i]
		cfg.Side[i].Interleaving = c&1 != 0
		c >>= 1
		cfg.Side[i].ZeroCRC = c&1 != 0
		c >>= 1
	}
	sweepPlacement(w, pl, n, k)
}

// sweepPlacementCount: number of placements of at most k faults (4 actions) on n packets per direction.
func sweepPlacementCount(n, k int) int {
	P, A := 2*n, 4
	total, c, a := 0, 1, 1
	for j := 0; j <= k; j++ {
		total += c * a
		c = c * (P - j) / (j + 1)
		a *= A
	}
	return total
}

// sweepPlacement decodes placement number pl into the fault-plan parameters p<j>d / p<j>i / p<j>a.
func sweepPlacement(w *world, pl, n, k int) {
	// unrank the placement: number of faults first, then the position set, then the actions
	P, A := 2*n, 4
	cnt, comb, act := 0, 1, 1
	j := 0
	for ; j <= k; j++ {
		cnt = comb * act
		if pl < cnt {
			break
		}
		pl -= cnt
		comb = comb * (P - j) / (j + 1)
		act *= A
	}
	actions := pl % act
	set := pl / act
	// the set-th j-subset of {0..P-1} in lexicographic order
	var pos []int
	x := 0
	for r := j; r > 0; r-- {
		for {
			// subsets that start with x: C(P-x-1, r-1)
			cc := 1
			for t := 0; t < r-1; t++ {
				cc = cc * (P - x - 1 - t) / (t + 1)
			}
			if set < cc {
				break
			}
			set -= cc
			x++
		}
		pos = append(pos, x)
		x++
	}
	for t, q := range pos {
		w.params[fmt.Sprintf("p%dd", t)] = q / n
		w.params[fmt.Sprintf("p%di", t)] = q % n
		w.params[fmt.Sprintf("p%da", t)] = 1 + actions%A
		actions /= A
	}
	w.probe(fmt.Sprintf("sweep-faults-%d", j))
}

func scenarioHandshake(w *world) {
	cfg := genConfig(w, cfgOpts{wrapBias: true, noFaults: true})
	tp := w.wtape
	mode := tp.intn(8)
	if m, ok := w.params["c04_mode"]; ok {
		mode = m
	}
	sweep := w.params["c04_sweep"] != 0
	if sweep {
		mode = tp.intn(4) // plain handshake, stale packets replayed afterwards
		c04SweepDecode(w, cfg)
	}
	cfg.SNAP = mode == 6
	w.setup(cfg)
	x := newXfer(w)
	mon := w.installMonitor(x)
	lat := time.Duration(cfg.Fault[0].LatencyUs+cfg.Fault[0].JitterUs) * time.Microsecond
	rmax := rtoMaxOf(cfg.Side[0])
	if r := rtoMaxOf(cfg.Side[1]); r > rmax {
		rmax = r
	}

	switch {
	case mode == 7 && cfg.Side[0].Role != cfg.Side[1].Role || mode == 7 && cfg.Side[0].Role == "client":
		// ---- silent peer: nothing is ever delivered; the client call must fail in bounded time
		w.net.partitioned = [2]bool{true, true}
		w.probe("silent-peer")
		// a waiting server-side call must return as soon as its transport is closed
		var closedAt time.Duration = -1
		for side := 0; side < 2; side++ {
			if cfg.Side[side].Role == "server" {
				side := side
				w.sim.spawnClient("close-transport."+w.eps[side].name, w.eps[side].name, func() {
					h := vsimBlocking("client.sleep")
					time.Sleep(time.Duration(1+tp.intn(5000)) * time.Millisecond)
					vsimWoke(h)
					closedAt = w.now()
					_ = w.eps[side].conn.Close()
				})
			}
		}
		// ... nothing from the peer, that is: stray packets that a client must discard may still arrive (an INIT-ACK
		// for another SCTP port pair, with the right or a foreign verification tag; noise); they must
		// not keep the call from failing on the T1-init schedule
		nStray := pick(tp, 0, 0, 1, 2, 4)
		strayAt := make([]time.Duration, nStray)
		strayKind := make([]int, nStray)
		strayRnd := make([]uint32, nStray)
		for i := range strayAt {
			strayAt[i] = time.Duration(tp.intn(6000)) * time.Millisecond
			strayKind[i] = tp.intn(4)
			strayRnd[i] = uint32(tp.intn(1 << 30))
		}
		if nStray > 0 {
			w.sim.spawnClient("stray", "adv", func() {
				last := time.Duration(0)
				for i := range strayAt {
					if strayAt[i] > last {
						h := vsimBlocking("client.sleep")
						time.Sleep(strayAt[i] - last)
						vsimWoke(h)
						last = strayAt[i]
					}
					if w.tornDown || w.stopped() {
						return
					}
					for side := 0; side < 2; side++ {
						if cfg.Side[side].Role != "client" || len(w.pkts[side]) == 0 || w.eps[side].conn == nil {
							continue
						}
						ini := w.pkts[side][0]
						if len(ini.chunks) == 0 || ini.chunks[0].typ != wtINIT {
							continue
						}
						tag := ini.chunks[0].initTag
						initv := append(wU32(strayRnd[i]|1, 1<<20, 0x000a000a, strayRnd[i]), wParamTLV(7, []byte{1, 2, 3, 4, 5, 6, 7, 8})...)
						var raw []byte
						switch strayKind[i] {
						case 0, 1:
							// answers the INIT, but for another port pair
							raw = wNewPacket(ini.dstPort+1, ini.srcPort, tag).chunk(wtINITACK, 0, initv).bytes(true)
						case 2:
							// (a foreign verification tag alone is not a reason for this library to discard a packet, see
							// §11.6; the stray carries a foreign port pair as well)
							raw = wNewPacket(ini.dstPort, ini.srcPort+7, tag^0x5a5a5a5a).chunk(wtINITACK, 0, initv).bytes(true)
						default:
							raw = []byte{byte(strayRnd[i]), 1, 2, 3}
						}
						w.probe("silent-peer-stray-packet")
						w.sim.trace.addString("stray")
						w.net.inject(w.now(), w.eps[side].conn, raw)
					}
				}
			})
		}
		budget := t1Budget(rmax)
		w.connect(budget + 10*time.Second)
		if w.stopped() {
			return
		}
		for side := 0; side < 2; side++ {
			ep := w.eps[side]
			var call *apiCall
			for _, c := range w.calls {
				if c.ep == ep && c.op == "connect" {
					call = c
				}
			}
			if cfg.Side[side].Role == "client" {
				if !ep.connDone {
					w.violate("C04", "connect-hangs", "%s: ClientWithOptions has not returned %v after the start although the peer never answered (T1 budget %v)", ep.name, w.now(), budget)
					return
				}
				if ep.connErr == nil {
					w.violate("C04", "connect-succeeded-without-peer", "%s: ClientWithOptions returned no error although no packet was ever delivered", ep.name)
					return
				}
				if call != nil && call.returnAt > budget {
					w.violate("C04", "connect-fails-late", "%s: ClientWithOptions failed after %v; the T1-init schedule allows %v", ep.name, call.returnAt, budget)
					return
				}
				w.probe("silent-peer-connect-failed")
			} else {
				if !ep.connDone {
					w.violate("C04", "server-hangs-after-transport-close", "%s: ServerWithOptions has not returned although its transport was closed at %v", ep.name, closedAt)
					return
				}
				if call != nil && closedAt >= 0 && call.returnAt-closedAt > 10*time.Millisecond {
					w.violate("C04", "server-returns-late", "%s: ServerWithOptions returned %v after its transport was closed", ep.name, call.returnAt-closedAt)
					return
				}
				w.probe("server-transport-closed-returned")
			}
		}
		// the application gives up: it closes the transports; afterwards no goroutine of the failed
		// association survives
		for _, ep := range w.eps {
			_ = ep.conn.Close()
		}
		w.quiesce(time.Second)
		for _, ep := range w.eps {
			if left := w.censusOf(ep.name); len(left) > 0 {
				w.violate("C09", "tasks-left-after-failed-handshake", "%s: tasks alive after the connect call failed: %v", ep.name, left)
				return
			}
		}
		return
	}

	// ---- handshake under faults that leave every retransmitted packet a chance
	// The first 3 packets of each direction may be lost: 6 lost transmissions in the worst case,
	// fewer than the 9 attempts (1 + Max.Init.Retransmits) every handshake packet gets.
	limit := 3
	lossPPM := uint32(pick(tp, 0, 100000, 300000, 600000))
	dupPPM := uint32(pick(tp, 0, 0, 100000, 300000))
	holdPPM := uint32(pick(tp, 0, 0, 200000))
	if len(w.params) > 0 && w.params["p0a"] != 0 || sweep {
		lossPPM, dupPPM, holdPPM = 0, 0, 0 // planned faults only (sweep)
	}
	w.net.faultsOn = true
	w.net.mark()
	for i := 0; i < 2; i++ {
		w.net.cfg[i].dropPPM = lossPPM
		w.net.cfg[i].dupPPM = dupPPM
		w.net.cfg[i].reorderPPM = holdPPM
		w.net.cfg[i].holdMax = 1500 * time.Millisecond
	}
	w.net.faultLimit = limit // only the first packets of each direction may be hit
	var ok bool
	budget := 2*t1Budget(rmax) + 20*lat
	if cfg.SNAP {
		tok, err := w.snapTokens(mon)
		if err != nil {
			w.abort("snap tokens: " + err.Error())
			return
		}
		ok = w.connectSNAP(tok, budget)
	} else {
		ok = w.connect(budget)
	}
	if w.stopped() {
		return
	}
	if !ok || w.eps[0].connErr != nil || w.eps[1].connErr != nil {
		w.violate("C04", "handshake-failed", "handshake did not complete within %v (roles %s/%s snap=%v, first %d packets per direction lossy at %d ppm): done=%v/%v err=%v/%v states %s",
			budget, cfg.Side[0].Role, cfg.Side[1].Role, cfg.SNAP, limit, lossPPM, w.eps[0].connDone, w.eps[1].connDone, w.eps[0].connErr, w.eps[1].connErr, w.describeStates())
		return
	}
	w.probe("handshake-completed")
	if cfg.Side[0].Role == "client" && cfg.Side[1].Role == "client" && !cfg.SNAP {
		w.probe("init-collision-handshake")
	}
	// ---- agreement
	var md [2]AssociationMetadata
	for side := 0; side < 2; side++ {
		side := side
		done := false
		w.sim.spawnClient("metadata."+w.eps[side].name, w.eps[side].name, func() {
			m, ok := w.eps[side].assoc.Metadata()
			if !ok {
				w.violate("C04", "metadata-not-ready", "%s: Metadata() reports not established right after the connect call returned", w.eps[side].name)
			}
			md[side] = m
			done = true
		})
		w.run(func() bool { return done }, w.now()+time.Second)
		if w.stopped() {
			return
		}
	}
	bothI := cfg.Side[0].Interleaving && cfg.Side[1].Interleaving
	for side := 0; side < 2; side++ {
		m := md[side]
		name := w.eps[side].name
		if m.MessageInterleavingEnabled != bothI {
			w.violate("C04", "interleaving-disagreement", "%s: MessageInterleavingEnabled=%v but the endpoints enabled it %v/%v", name, m.MessageInterleavingEnabled, cfg.Side[0].Interleaving, cfg.Side[1].Interleaving)
			return
		}
		wantPR := PartialReliabilityModeForwardTSN
		if bothI {
			wantPR = PartialReliabilityModeIForwardTSN
		}
		if m.PartialReliabilityMode != wantPR {
			w.violate("C04", "forward-tsn-variant", "%s: PartialReliabilityMode=%v, expected %v (interleaving on both = %v)", name, m.PartialReliabilityMode, wantPR, bothI)
			return
		}
		if m.ZeroChecksumSendingEnabled && !cfg.Side[1-side].ZeroCRC {
			w.violate("C04", "zero-checksum-not-acceptable", "%s sends zero checksums but %s did not declare them acceptable", name, w.eps[1-side].name)
			return
		}
		if m.ZeroChecksumSendingEnabled != cfg.Side[1-side].ZeroCRC {
			w.violate("C04", "zero-checksum-disagreement", "%s: ZeroChecksumSendingEnabled=%v but the peer's acceptance is %v", name, m.ZeroChecksumSendingEnabled, cfg.Side[1-side].ZeroCRC)
			return
		}
		if m.ZeroChecksumReceivingEnabled != cfg.Side[side].ZeroCRC {
			w.violate("C04", "zero-checksum-disagreement", "%s: ZeroChecksumReceivingEnabled=%v but it was configured %v", name, m.ZeroChecksumReceivingEnabled, cfg.Side[side].ZeroCRC)
			return
		}
	}
	// ---- a short exchange in both directions; meanwhile stale handshake packets are replayed
	w.net.faultLimit = 0
	w.net.faultsOn = false
	captured := append([]*wirePacket{}, w.allPkts...)
	x.dirs = []*xferDir{
		{sid: 1, from: 0, relType: ReliabilityTypeReliable, preopen: tp.intn(2) == 0},
		{sid: 2, from: 1, relType: ReliabilityTypeReliable, preopen: tp.intn(2) == 0},
	}
	for _, d := range x.dirs {
		for j := 0; j < 20; j++ {
			d.sizes = append(d.sizes, 1+tp.intn(2000))
		}
		if tp.intn(2) == 0 {
			d.gaps = make([]time.Duration, len(d.sizes))
			for j := range d.gaps {
				d.gaps[j] = time.Duration(tp.intn(100)) * time.Millisecond
			}
		}
	}
	replay := mode <= 3
	if replay && len(captured) > 0 {
		n := 1 + tp.intn(12)
		for i := 0; i < n; i++ {
			p := captured[tp.intn(len(captured))]
			at := w.now() + time.Duration(tp.intn(3000))*time.Millisecond
			w.net.inject(at, w.eps[1-p.from].conn, p.raw)
			w.probe("stale-handshake-packet-replayed")
			w.probes["adv.injected"]++
		}
	}
	st := map[*xferDir]*dirState{}
	x.onRead = func(d *xferDir, r *readRec) { checkRead(w, st, d, r) }
	x.start()
	total := 0
	for _, d := range x.dirs {
		for _, n := range d.sizes {
			total += n
		}
	}
	bound := 6*rmax + time.Duration(total/1000+1)*(2*lat+200*time.Millisecond)*2 + faultPhaseSlack(x) + 3*time.Second
	r := w.run(func() bool { return x.writersDone() && x.allSettled() && x.drained() }, w.now()+bound)
	if w.stopped() {
		return
	}
	for side := 0; side < 2; side++ {
		if st := accState(w.eps[side].assoc); st != established {
			w.violate("C04", "left-established", "%s left the established state (%s) while stale handshake packets were replayed=%v", w.eps[side].name, getAssociationStateString(st), replay)
			return
		}
	}
	if r != stopCond {
		w.violate("C04", "exchange-failed", "the 20-message exchange after the handshake did not complete within %v (replayed stale handshake packets=%v): %s", bound, replay, w.describeStates())
		return
	}
	w.quiesce(2 * time.Second)
	if w.stopped() {
		return
	}
	x.finalChecks(mon)
}

func (w *world) describeStates() string {
	s := ""
	for _, ep := range w.eps {
		if ep.assoc != nil {
			s += fmt.Sprintf("%s=%s ", ep.name, accStateName(ep.assoc))
		} else {
			s += ep.name + "=<no association> "
		}
	}
	return s
}
