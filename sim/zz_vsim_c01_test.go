package sctp

// C01 (reliable ordered streams: exactly once, in order, intact) and
// C02 (no permanent stall once the network heals).

import (
	"fmt"
	"time"
)

func init() {
	registerScenario("C01", func(w *world) { scenarioReliable(w, "C01") })
	registerScenario("C02", func(w *world) { scenarioReliable(w, "C02") })
	registerScenario("smoke", func(w *world) { scenarioReliable(w, "smoke") })
}

// checkOrderedPrefix: reads on a reliable ordered stream must be, at every
// moment, a prefix of the writes accepted on the peer's stream object.
func checkOrderedPrefix(w *world, prop string, d *xferDir, r *readRec) {
	if r.bad != "" {
		w.violate(prop, "altered", "stream %d (%s->): read #%d: %s", d.sid, w.eps[d.from].name, len(d.rx.reads), r.bad)
		return
	}
	// k-th successful read must be the k-th accepted write
	k := 0
	for _, q := range d.rx.reads {
		if q.err == nil {
			k++
		}
	}
	k-- // index of this read
	var acc []*msgRec
	for _, m := range d.msgs {
		if !m.done || m.err == nil {
			acc = append(acc, m)
		}
	}
	if k >= len(acc) {
		w.violate(prop, "extra", "stream %d: read #%d returned message %d but only %d writes were accepted", d.sid, k, r.msg.id, len(acc))
		return
	}
	if acc[k] != r.msg {
		class := "reordered"
		if r.msg.delivered > 1 {
			class = "duplicated"
		} else {
			for j := 0; j < k; j++ {
				if acc[j] == r.msg {
					class = "duplicated"
				}
			}
			if class != "duplicated" {
				class = "lost-or-reordered"
			}
		}
		w.violate(prop, class, "stream %d (%s->%s): read #%d returned message %d (size %d), expected message %d (size %d)",
			d.sid, w.eps[d.from].name, w.eps[1-d.from].name, k, r.msg.id, r.msg.size, acc[k].id, acc[k].size)
	}
}

func scenarioReliable(w *world, prop string) {
	o := cfgOpts{wrapBias: true, maxLossPPM: 250000}
	if prop == "C02" {
		o.smallBuffers = w.ctape.intn(2) == 0
		o.maxLossPPM = 500000
	}
	cfg := genConfig(w, o)
	if prop == "smoke" {
		cfg = &runConfig{StepBudget: 400000}
		cfg.Side[0].Role, cfg.Side[1].Role = "client", "server"
	}
	w.setup(cfg)
	// the handshake is not under test here: no faults until established
	w.net.faultsOn = false
	if !w.connect(120*time.Second) || w.eps[0].connErr != nil || w.eps[1].connErr != nil {
		if w.viol == nil && w.aborted == "" {
			w.violate("C04", "no-faults-handshake", "fault-free handshake failed: %v / %v", w.eps[0].connErr, w.eps[1].connErr)
		}
		return
	}
	w.net.faultsOn = true

	x := newXfer(w)
	xo := xferOpts{maxStreams: 4, maxSID: 9, maxMsgs: 12, maxBytes: 300000, reliableOrderedOnly: true}
	if thorough() {
		xo.maxStreams, xo.maxMsgs, xo.maxBytes = 8, 60, 2000000
	}
	if prop == "C02" {
		xo.slowReaders = true
	}
	x.dirs = genDirs(w, xo)
	{
		// workload precondition (DESIGN C02): the messages that can be in progress at the
		// same time fit in half the receiver's buffer (SCTP has no partial delivery here)
		for _, d := range x.dirs {
			rb := int(w.cfg.Side[1-d.from].RecvBuf)
			if rb == 0 {
				rb = 1024 * 1024
			}
			lim := rb / 2 / (len(x.dirs) + 1)
			for i := range d.sizes {
				if d.sizes[i] > lim {
					d.sizes[i] = 1 + lim/2
				}
			}
		}
	}
	x.onRead = func(d *xferDir, r *readRec) {
		if d != nil {
			checkOrderedPrefix(w, "C01", d, r)
		}
	}
	x.start()

	// fault phase: until the writers are done (bounded), then heal
	faultPhase := time.Duration(5+w.wtape.intn(60)) * time.Second
	w.run(func() bool { return x.writersDone() && x.reliableDelivered() }, w.now()+faultPhase)
	if w.viol != nil || w.aborted != "" {
		return
	}
	if prop == "C02" && w.wtape.intn(2) == 0 {
		// a full partition long enough to back the RTO off
		w.net.partitioned = [2]bool{true, true}
		w.probe("partition")
		w.sleep(time.Duration(5+w.wtape.intn(120)) * time.Second)
	}
	w.net.heal()
	x.healAt = w.now()

	// bounded liveness: C02
	rmax := rtoMaxOf(w.cfg.Side[0])
	if r := rtoMaxOf(w.cfg.Side[1]); r > rmax {
		rmax = r
	}
	outstanding := 0
	for _, ep := range w.eps {
		outstanding += accBufferedAmount(ep.assoc)
	}
	lat := time.Duration(w.cfg.Fault[0].LatencyUs+w.cfg.Fault[0].JitterUs) * time.Microsecond
	minMTU := 1191
	for _, s := range w.cfg.Side {
		if s.MTU != 0 && int(s.MTU) < minMTU {
			minMTU = int(s.MTU)
		}
	}
	pktsOutstanding := outstanding/(minMTU-32) + 1
	maxPause := time.Duration(0)
	for _, d := range x.dirs {
		if d.pauseFor > maxPause {
			maxPause = d.pauseFor
		}
		maxPause += time.Duration(len(d.sizes)) * d.readDelay
	}
	bound := 6*rmax + time.Duration(pktsOutstanding)*(2*lat+200*time.Millisecond)*2 + maxPause + faultPhaseSlack(x)
	r := w.run(func() bool { return x.writersDone() && x.reliableDelivered() && x.drained() }, x.healAt+bound)
	if w.viol != nil || w.aborted != "" {
		return
	}
	if r == stopCond {
		x.completed = true
		x.doneAt = w.now()
		if w.extra == nil {
			w.extra = map[string]any{}
		}
		w.extra["c02_margin"] = float64(x.doneAt-x.healAt) / float64(bound)
	} else {
		// describe what is stuck
		desc := ""
		for _, ep := range w.eps {
			isz, ib := accInflight(ep.assoc)
			psz, pb := accPending(ep.assoc)
			desc += fmt.Sprintf("%s: state=%s inflight=%d/%dB pending=%d/%dB cwnd=%d rwnd=%d %s; ", ep.name, accStateName(ep.assoc), isz, ib, psz, pb, ep.assoc.CWND(), ep.assoc.RWND(), accTimers(ep.assoc))
		}
		missing := 0
		for _, d := range x.dirs {
			for _, m := range d.msgs {
				if m.done && m.err == nil && m.delivered == 0 {
					missing++
				}
			}
		}
		w.violate("C02", "stall", "not drained %v after the network healed (bound %v): writersDone=%v undelivered=%d %s",
			w.now()-x.healAt, bound, x.writersDone(), missing, desc)
		return
	}
	// final C01 check: everything accepted was delivered exactly once, in order
	for _, d := range x.dirs {
		acc := 0
		for _, m := range d.msgs {
			if m.err == nil {
				acc++
				if m.delivered != 1 {
					w.violate("C01", "lost", "stream %d: message %d (size %d) delivered %d times after a drained run", d.sid, m.id, m.size, m.delivered)
				}
			}
		}
		if d.rx != nil && len(x.okReads(d.rx)) != acc {
			w.violate("C01", "count", "stream %d: %d reads for %d accepted writes", d.sid, len(x.okReads(d.rx)), acc)
		}
	}
}

// faultPhaseSlack: writers that sleep between writes may still be writing after the heal.
func faultPhaseSlack(x *xfer) time.Duration {
	var s time.Duration
	for _, d := range x.dirs {
		var t time.Duration
		for _, g := range d.gaps {
			t += g
		}
		if t > s {
			s = t
		}
	}
	return s
}
