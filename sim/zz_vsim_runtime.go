// Deterministic-simulation runtime for pion/sctp (added to the package through
// `go build -overlay`; never part of /repo). All vsim* hooks are inserted by
// /verif/cmd/instrument. When no simulation is installed (vsim == nil) every
// hook performs the original operation, so the package behaves as shipped.
//
// Discipline: exactly one task (goroutine of the system under test or client
// task of the harness) holds the "token" and runs; every other goroutine is
// parked on its resume channel, or blocked naturally (channel, timer). The
// driver (the root goroutine of a testing/synctest bubble) waits for quiescence
// with synctest.Wait and then decides from the seeded tapes who runs next.

package sctp

import (
	"cmp"
	"fmt"
	"runtime/debug"
	"slices"
	"sync"
	"time"

	"github.com/pion/transport/v4/deadline"
)

const (
	vsimParkStart = iota // new goroutine / timer callback, not yet run
	vsimParkWoke         // returned from a blocking operation
	vsimParkLock         // wants a mutex
	vsimParkCond         // waiting on a condition variable (needs signal + mutex)
	vsimParkYield        // forced or voluntary scheduling point
)

const (
	vsimModeW = 0
	vsimModeR = 1
)

type vsimTask struct {
	name      string
	site      string
	resume    chan struct{}
	kind      int
	wantKey   any
	wantMode  int
	signalled bool
	parked    bool
	done      bool
	client    bool
	owner     string // association name or "" (census)
	nlocks    int
	isCB      bool // timer callback
	holdDrawn bool
	hold      int // scheduling steps during which the driver passes this task over (timer callbacks)
	prio      int // priority schedule (sched_mode 1): the enabled task with the highest priority runs; 0 = not drawn yet
	steps     int
	wokeStep  int // step number at which the task last resumed from a blocking operation / started
}

type vsimCBRec struct {
	name string
	at   time.Time
}

type vsimLockState struct {
	owner   *vsimTask
	readers map[*vsimTask]int
}

type vsimSim struct {
	mu       sync.Mutex // protects parked/tasks/cbSeq against window goroutines
	cur      *vsimTask
	last     *vsimTask
	parked   []*vsimTask
	tasks    []*vsimTask
	locks    map[any]*vsimLockState
	conds    map[*sync.Cond][]*vsimTask
	wake     chan struct{}
	spawnSeq int
	cbSeq    map[string]int
	names    map[any]string

	sched    *vsimTape
	mapTape  *vsimTape
	selTape  *vsimTape
	noPerm   bool   // select / map orders are the identity (twin runs must not depend on how many draws happened)
	yieldPPM uint32 // probability (per million) of a voluntary yield at a lock acquisition
	nDeadlines int
	timerDue   map[*time.Timer]time.Time // pending expiries of the package's timers (as far as known)
	holdPPM  uint32 // probability (per million) that a starting timer callback is held back for a few steps
	// priority schedule (PCT, Burckhardt et al. 2010): every task gets a seeded priority when the driver first sees
	// it, the highest-priority enabled task runs, and at a few seeded step numbers the task that is about to run
	// drops below everything else. One run thus starves some tasks for long stretches - "everybody else runs to
	// completion whenever the read loop lets go of the lock" - which the random walk practically never does.
	prioMode    bool
	prioChange  []int // step numbers of the change points, ascending
	prioChanged int
	netPrio     int

	lastLib    string
	cbLog      []vsimCBRec // every timer callback with its (virtual) firing time
	panicked   bool
	panicMsg   string
	harnessErr string

	trace     vsimHash
	nSteps    int
	nLibSteps int // steps of tasks that are not harness client tasks
	nYields   int
	nSelMulti int // selects that found >= 2 ready clauses (reach probe)
	onLockHeldAtCallback func(t *vsimTask)
	traceLog  func(string)
}

// vsim is the installed simulation (nil when the package runs free).
var vsim *vsimSim //nolint:gochecknoglobals

// ---------------------------------------------------------------- hashing

type vsimHash uint64

func (h *vsimHash) addString(s string) {
	x := uint64(*h)
	if x == 0 {
		x = 14695981039346656037
	}
	for i := 0; i < len(s); i++ {
		x ^= uint64(s[i])
		x *= 1099511628211
	}
	x ^= 0xff
	x *= 1099511628211
	*h = vsimHash(x)
}

func (h *vsimHash) addBytes(b []byte) {
	x := uint64(*h)
	if x == 0 {
		x = 14695981039346656037
	}
	for i := 0; i < len(b); i++ {
		x ^= uint64(b[i])
		x *= 1099511628211
	}
	x ^= 0xfe
	x *= 1099511628211
	*h = vsimHash(x)
}

func (h *vsimHash) addInt(v int64) {
	x := uint64(*h)
	if x == 0 {
		x = 14695981039346656037
	}
	u := uint64(v)
	for i := 0; i < 8; i++ {
		x ^= u & 0xff
		x *= 1099511628211
		u >>= 8
	}
	*h = vsimHash(x)
}

// ---------------------------------------------------------------- tapes

// vsimTape is one named stream of decisions. In search mode values come from a
// seeded generator; in replay mode from the recorded list (0 beyond its end).
// Value 0 is always the benign default.
type vsimTape struct {
	name   string
	state  uint64
	fixed  []uint32
	replay bool
	rec    []uint32
	// sparse overrides used by the minimiser: positions forced to zero
	zero map[int]bool
}

func vsimNewTape(name string, seed uint64) *vsimTape {
	t := &vsimTape{name: name}
	// splitmix of (seed, name)
	h := vsimHash(0)
	h.addString(name)
	t.state = seed ^ uint64(h)
	t.next()
	return t
}

func (t *vsimTape) next() uint64 {
	t.state += 0x9e3779b97f4a7c15
	z := t.state
	z = (z ^ (z >> 30)) * 0xbf58476d1ce4e5b9
	z = (z ^ (z >> 27)) * 0x94d049bb133111eb
	return z ^ (z >> 31)
}

// raw returns the next tape value: a generated one in search mode.
func (t *vsimTape) put(v uint32) uint32 {
	pos := len(t.rec)
	if t.replay {
		v = 0
		if pos < len(t.fixed) {
			v = t.fixed[pos]
		}
	}
	if t.zero != nil && t.zero[pos] {
		v = 0
	}
	t.rec = append(t.rec, v)
	return v
}

// intn draws uniformly from [0,n); 0 is the default.
func (t *vsimTape) intn(n int) int {
	if n <= 1 {
		return int(t.put(0)) * 0
	}
	var g uint32
	if !t.replay {
		g = uint32(t.next() % uint64(n))
	}
	return int(t.put(g) % uint32(n))
}

// chance returns true with probability ppm/1e6; false is the default.
func (t *vsimTape) chance(ppm uint32) bool {
	var g uint32
	if !t.replay && ppm > 0 {
		if uint32(t.next()%1000000) < ppm {
			g = 1
		}
	}
	return t.putIf(g, ppm > 0) != 0
}

// putIf is put for a decision the configuration may rule out (rate 0): such a decision stays ruled out whatever a
// replayed - in particular a mutated - tape says, so that every mutated run is a run some seed could have produced.
func (t *vsimTape) putIf(v uint32, allowed bool) uint32 {
	if !allowed {
		t.rec = append(t.rec, 0)
		return 0
	}
	return t.put(v)
}

// biased draws from [0,n) but returns 0 with probability 1-ppm/1e6.
func (t *vsimTape) biased(n int, ppm uint32) int {
	if n <= 1 {
		t.put(0)
		return 0
	}
	var g uint32
	if !t.replay && ppm > 0 {
		if uint32(t.next()%1000000) < ppm {
			g = 1 + uint32(t.next()%uint64(n-1))
		}
	}
	return int(t.putIf(g, ppm > 0) % uint32(n))
}

// ---------------------------------------------------------------- parking

func (s *vsimSim) fail(msg string) {
	if s.harnessErr == "" {
		s.harnessErr = msg + "\n" + string(debug.Stack())
	}
}

func (t *vsimTask) park(s *vsimSim, kind int, site string) {
	s.lockMu()
	t.kind = kind
	t.site = site
	t.parked = true
	s.parked = append(s.parked, t)
	if s.cur == t {
		s.cur = nil
	}
	s.unlockMu()
	// (the hand-over of the token must not look like synchronisation of the library to the race detector)
	vsimRaceOff()
	select {
	case s.wake <- struct{}{}:
	default:
	}
	<-t.resume
	vsimRaceOn()
}

func (s *vsimSim) lockMu() {
	vsimRaceOff()
	s.mu.Lock()
	vsimRaceOn()
}

func (s *vsimSim) unlockMu() {
	vsimRaceOff()
	s.mu.Unlock()
	vsimRaceOn()
}

func (s *vsimSim) token(where string) *vsimTask {
	t := s.cur
	if t == nil {
		s.fail("hook " + where + " called by a goroutine that does not hold the token")
		// keep going with a dummy task so that we do not crash inside the library
		t = &vsimTask{name: "?", resume: make(chan struct{}, 1)}
	}
	return t
}

func (s *vsimSim) lockState(key any) *vsimLockState {
	ls := s.locks[key]
	if ls == nil {
		ls = &vsimLockState{}
		s.locks[key] = ls
	}
	return ls
}

func (s *vsimSim) lockFree(key any, mode int, t *vsimTask) bool {
	ls := s.locks[key]
	if ls == nil {
		return true
	}
	if ls.owner != nil {
		return false
	}
	if mode == vsimModeW {
		return len(ls.readers) == 0
	}
	return true
}

func (s *vsimSim) acquire(key any, mode int, site string) {
	t := s.token("lock")
	if !s.lockFree(key, mode, t) || s.sched.chance(s.yieldPPM) {
		if ls := s.locks[key]; ls != nil && (ls.owner == t || (mode == vsimModeW && ls.readers[t] > 0)) {
			s.fail(fmt.Sprintf("self-deadlock: task %s re-acquires a lock it holds at %s", t.name, site))
		}
		s.nYields++
		t.wantKey, t.wantMode = key, mode
		t.park(s, vsimParkLock, site)
	}
	ls := s.lockState(key)
	if mode == vsimModeW {
		ls.owner = t
	} else {
		if ls.readers == nil {
			ls.readers = map[*vsimTask]int{}
		}
		ls.readers[t]++
	}
	t.nlocks++
}

func (s *vsimSim) release(key any, mode int) {
	t := s.token("unlock")
	ls := s.locks[key]
	if ls == nil {
		s.fail("unlock of unknown lock")
		return
	}
	if mode == vsimModeW {
		if ls.owner != t {
			s.fail(fmt.Sprintf("task %s unlocks a mutex owned by %v", t.name, ls.owner))
		}
		ls.owner = nil
	} else {
		if ls.readers[t] <= 0 {
			s.fail(fmt.Sprintf("task %s runlocks a mutex it does not read-hold", t.name))
		} else if ls.readers[t]--; ls.readers[t] == 0 {
			delete(ls.readers, t)
		}
	}
	t.nlocks--
}

// ---------------------------------------------------------------- hooks: mutexes

func vsimLockM(m *sync.Mutex) {
	if s := vsim; s != nil {
		s.acquire(m, vsimModeW, "")
	}
	m.Lock()
}

func vsimUnlockM(m *sync.Mutex) {
	m.Unlock()
	if s := vsim; s != nil {
		s.release(m, vsimModeW)
	}
}

func vsimLockRW(m *sync.RWMutex) {
	if s := vsim; s != nil {
		s.acquire(m, vsimModeW, "")
	}
	m.Lock()
}

func vsimUnlockRW(m *sync.RWMutex) {
	m.Unlock()
	if s := vsim; s != nil {
		s.release(m, vsimModeW)
	}
}

func vsimRLockRW(m *sync.RWMutex) {
	if s := vsim; s != nil {
		s.acquire(m, vsimModeR, "")
	}
	m.RLock()
}

func vsimRUnlockRW(m *sync.RWMutex) {
	m.RUnlock()
	if s := vsim; s != nil {
		s.release(m, vsimModeR)
	}
}

// ---------------------------------------------------------------- hooks: cond

func vsimCondKey(c *sync.Cond) any {
	switch l := c.L.(type) {
	case *sync.Mutex:
		return l
	case *sync.RWMutex:
		return l
	}
	return nil
}

func vsimCondWait(c *sync.Cond) {
	s := vsim
	if s == nil {
		c.Wait()
		return
	}
	t := s.token("cond.wait")
	key := vsimCondKey(c)
	if key == nil {
		s.fail("cond with unsupported locker")
		c.Wait()
		return
	}
	s.conds[c] = append(s.conds[c], t)
	c.L.Unlock()
	s.release(key, vsimModeW)
	t.signalled = false
	t.wantKey, t.wantMode = key, vsimModeW
	t.park(s, vsimParkCond, "cond")
	c.L.Lock()
	ls := s.lockState(key)
	ls.owner = t
	t.nlocks++
}

func vsimCondSignal(c *sync.Cond) {
	s := vsim
	if s == nil {
		c.Signal()
		return
	}
	s.token("cond.signal")
	if w := s.conds[c]; len(w) > 0 {
		w[0].signalled = true
		s.conds[c] = w[1:]
	}
}

func vsimCondBroadcast(c *sync.Cond) {
	s := vsim
	if s == nil {
		c.Broadcast()
		return
	}
	s.token("cond.broadcast")
	for _, w := range s.conds[c] {
		w.signalled = true
	}
	delete(s.conds, c)
}

// ---------------------------------------------------------------- hooks: once, channels, goroutines

func vsimOnceDo(o *sync.Once, f func()) {
	o.Do(f)
	vsimYield("once")
}

func vsimClose[T any](ch chan T) {
	close(ch)
	vsimYield("close")
}

// vsimYield is a forced scheduling point (after an operation that may have
// made another goroutine runnable, so that at most one such operation happens
// per step and a blocked select never wakes with two ready clauses).
func vsimYield(site string) {
	s := vsim
	if s == nil {
		return
	}
	t := s.token("yield")
	t.park(s, vsimParkYield, site)
}

func vsimBlocking(site string) *vsimTask {
	s := vsim
	if s == nil {
		return nil
	}
	t := s.token("blocking")
	t.site = site
	return t
}

func vsimWoke(h *vsimTask) {
	s := vsim
	if s == nil || h == nil {
		return
	}
	h.park(s, vsimParkWoke, h.site)
}

func vsimRecv[T any](ch <-chan T) T {
	h := vsimBlocking("recv")
	v := <-ch
	vsimWoke(h)
	return v
}

func vsimRecv2[T any](ch <-chan T) (T, bool) {
	h := vsimBlocking("recv")
	v, ok := <-ch
	vsimWoke(h)
	return v, ok
}

func vsimZero[T any, C interface{ ~chan T | ~<-chan T }](ch C) T {
	var z T
	return z
}

// vsimPerm returns the order in which the clauses of a select are polled.
func vsimPerm(n int) []int {
	p := make([]int, n)
	for i := range p {
		p[i] = i
	}
	s := vsim
	if s == nil {
		return p
	}
	s.token("select")
	if s.noPerm {
		return p
	}
	for i := 0; i < n-1; i++ {
		j := i + s.selTape.intn(n-i)
		p[i], p[j] = p[j], p[i]
	}
	return p
}

func (s *vsimSim) newTask(name string) *vsimTask {
	t := &vsimTask{name: name, resume: make(chan struct{}, 1)}
	s.lockMu()
	s.tasks = append(s.tasks, t)
	s.unlockMu()
	return t
}

func (s *vsimSim) runTask(t *vsimTask, f func()) {
	defer func() {
		if r := recover(); r != nil {
			s.lockMu()
			if !s.panicked {
				s.panicked = true
				s.panicMsg = fmt.Sprintf("panic in task %s: %v\n%s", t.name, r, debug.Stack())
			}
			s.unlockMu()
		}
		s.lockMu()
		t.done = true
		if s.cur == t {
			s.cur = nil
		}
		s.unlockMu()
	}()
	t.park(s, vsimParkStart, t.name)
	f()
}

func vsimGo(site string, f func()) {
	s := vsim
	if s == nil {
		go f()
		return
	}
	p := s.token("go")
	s.spawnSeq++
	t := s.newTask(fmt.Sprintf("g%05d:%s", s.spawnSeq, site))
	t.owner = p.owner
	go s.runTask(t, f)
}

func vsimGo1[A any](site string, f func(A), a A) {
	vsimGo(site, func() { f(a) })
}

func init() {
	// the write-deadline timer of pion/transport (patched through the overlay, see bin/build.sh)
	deadline.SimTimerHook = func(recv any) func() { return vsimStartCB(recv) }
	// deadlines are created by tasks that hold the token (stream creation): the creation order is deterministic
	deadline.SimNewHook = func(recv any) {
		if s := vsim; s != nil {
			s.lockMu()
			s.nDeadlines++
			s.names[recv] = fmt.Sprintf("deadline%03d", s.nDeadlines)
			s.unlockMu()
		}
	}
}

// vsimStartCB is the first (deferred-call) statement of timer callbacks:
// `defer vsimStartCB(recv)()`. The callback parks before doing anything.
func vsimStartCB(recv any) func() {
	s := vsim
	if s == nil {
		return func() {}
	}
	base := "cb:" + vsimNameOf(recv)
	s.lockMu()
	n := s.cbSeq[base]
	s.cbSeq[base] = n + 1
	s.cbLog = append(s.cbLog, vsimCBRec{base, time.Now()})
	s.unlockMu()
	t := s.newTask(fmt.Sprintf("%s#%d", base, n))
	t.owner = vsimOwnerOf(recv)
	// (whether this callback is held back for some steps is drawn by the driver, in task-name order: callbacks that
	// start at the same instant reach this point in an order the simulator does not control)
	t.isCB = true
	t.park(s, vsimParkStart, base)
	return func() {
		if r := recover(); r != nil {
			s.lockMu()
			if !s.panicked {
				s.panicked = true
				s.panicMsg = fmt.Sprintf("panic in task %s: %v\n%s", t.name, r, debug.Stack())
			}
			s.unlockMu()
		}
		s.lockMu()
		t.done = true
		if s.cur == t {
			s.cur = nil
		}
		s.unlockMu()
	}
}

func vsimOwnerOf(recv any) string {
	switch x := recv.(type) {
	case *rtxTimer:
		if a, ok := x.observer.(*Association); ok {
			return a.name
		}
	case *ackTimer:
		if a, ok := x.observer.(*Association); ok {
			return a.name
		}
	}
	return ""
}

func vsimNameOf(recv any) string {
	if s := vsim; s != nil {
		if n, ok := s.names[recv]; ok {
			return n
		}
	}
	switch x := recv.(type) {
	case *rtxTimer:
		if a, ok := x.observer.(*Association); ok {
			return fmt.Sprintf("%s.rtx%d", a.name, x.id)
		}
		return fmt.Sprintf("rtx%d", x.id)
	case *ackTimer:
		if a, ok := x.observer.(*Association); ok {
			return a.name + ".ack"
		}
		return "ack"
	}
	return fmt.Sprintf("%T", recv)
}

// vsimLoopTick is inserted at the top of every loop body of the package: the work done
// between two scheduling points is measured in loop iterations, deterministically.
var vsimLoopN int64

const vsimLoopHard = 50_000_000

func vsimLoopTick() {
	// plain counter: only the token holder executes library code, and an atomic here would make
	// every loop iteration a synchronisation point in the eyes of the race detector
	vsimLoopN++
	if vsimLoopN > vsimLoopHard {
		vsimLoopN = 0
		panic(fmt.Sprintf("vsim: more than %d loop iterations without reaching a scheduling point", vsimLoopHard))
	}
}

// vsimMapKeys returns the keys of m in a seeded order (a legal refinement of
// Go's unspecified map iteration order).
func vsimMapKeys[K cmp.Ordered, V any](m map[K]V) []K {
	keys := make([]K, 0, len(m))
	for k := range m {
		keys = append(keys, k)
	}
	slices.Sort(keys)
	if u, ok := any(keys).([]uint32); ok && len(u) > 1 {
		// 32-bit keys are sequence numbers: start after the largest circular gap, so that the
		// base order is by serial-number distance and does not change when the whole key set is
		// shifted across 2^32 (the shifted twin runs of C16 rely on this).
		best, at := u[0]-u[len(u)-1], 0
		for i := 1; i < len(u); i++ {
			if g := u[i] - u[i-1]; g > best {
				best, at = g, i
			}
		}
		r := append(append([]uint32{}, u[at:]...), u[:at]...)
		copy(u, r)
	}
	s := vsim
	if s == nil || len(keys) < 2 {
		return keys
	}
	s.token("maprange")
	if s.noPerm {
		return keys
	}
	n := len(keys)
	for i := 0; i < n-1; i++ {
		j := i + s.mapTape.intn(n-i)
		keys[i], keys[j] = keys[j], keys[i]
	}
	return keys
}

// ---------------------------------------------------------------- driver side

func vsimNewSim(seed uint64) *vsimSim {
	return &vsimSim{
		locks:   map[any]*vsimLockState{},
		conds:   map[*sync.Cond][]*vsimTask{},
		wake:    make(chan struct{}, 1),
		cbSeq:   map[string]int{},
		names:   map[any]string{},
		sched:   vsimNewTape("sched", seed),
		mapTape: vsimNewTape("maporder", seed),
		selTape: vsimNewTape("selorder", seed),
	}
}

func (s *vsimSim) enabled(t *vsimTask) bool {
	switch t.kind {
	case vsimParkLock:
		return s.lockFree(t.wantKey, t.wantMode, t)
	case vsimParkCond:
		return t.signalled && s.lockFree(t.wantKey, t.wantMode, t)
	}
	return true
}

// enabledTasks returns the parked tasks that may run, sorted by name.
func (s *vsimSim) enabledTasks() []*vsimTask {
	var e []*vsimTask
	for _, t := range s.parked {
		if s.enabled(t) {
			e = append(e, t)
		}
	}
	slices.SortFunc(e, func(a, b *vsimTask) int { return cmp.Compare(a.name, b.name) })
	return e
}

// release hands the token to t.
func (s *vsimSim) releaseTask(t *vsimTask) {
	for i, p := range s.parked {
		if p == t {
			s.parked = append(s.parked[:i], s.parked[i+1:]...)
			break
		}
	}
	t.parked = false
	t.steps++
	if t.kind == vsimParkWoke || t.kind == vsimParkStart {
		t.wokeStep = s.nSteps + 1
	}
	s.cur = t
	s.last = t
	s.nSteps++
	if !t.client {
		s.nLibSteps++
		s.lastLib = t.name + "@" + t.site
	}
	s.trace.addString(t.name)
	s.trace.addString(t.site)
	if s.traceLog != nil {
		s.traceLog(fmt.Sprintf("step %d run %s @%s kind=%d", s.nSteps, t.name, t.site, t.kind))
	}
	vsimRaceOff()
	t.resume <- struct{}{}
	vsimRaceOn()
}

// spawnClient starts a harness task; it is born parked.
func (s *vsimSim) spawnClient(name, owner string, f func()) *vsimTask {
	s.spawnSeq++
	t := s.newTask(fmt.Sprintf("c%05d:%s", s.spawnSeq, name))
	t.client = true
	t.owner = owner
	go s.runTask(t, f)
	return t
}

// liveTasks returns tasks that have not finished (census).
func (s *vsimSim) liveTasks() []*vsimTask {
	var l []*vsimTask
	for _, t := range s.tasks {
		if !t.done {
			l = append(l, t)
		}
	}
	return l
}

// describeBlocked renders the wait-for information used in deadlock reports.
func (s *vsimSim) describeBlocked() string {
	out := ""
	for _, t := range s.tasks {
		if t.done {
			continue
		}
		st := "blocked(natural)"
		if t.parked {
			switch t.kind {
			case vsimParkLock:
				st = "wants-lock"
				if ls := s.locks[t.wantKey]; ls != nil {
					if ls.owner != nil {
						st += " held-by " + ls.owner.name
					}
					for r := range ls.readers {
						st += " read-held-by " + r.name
					}
				}
			case vsimParkCond:
				st = fmt.Sprintf("cond-wait signalled=%v", t.signalled)
			default:
				st = "parked"
			}
		}
		out += fmt.Sprintf("  %s @%s: %s (locks held: %d)\n", t.name, t.site, st, t.nlocks)
	}
	return out
}

func (s *vsimSim) lastName() string {
	if s.last != nil {
		return s.last.name
	}
	return "<network delivery>"
}

// ---------------------------------------------------------------- timers
// The package's timer operations go through these wrappers so that the simulator knows when timers are due
// to expire: the simulated network may delay a packet so that it arrives exactly when a timer of the system
// fires (a coincidence that seeded latencies alone practically never produce).

func (s *vsimSim) noteTimer(t *time.Timer, d time.Duration) {
	s.lockMu()
	if s.timerDue == nil {
		s.timerDue = map[*time.Timer]time.Time{}
	}
	s.timerDue[t] = time.Now().Add(d)
	s.unlockMu()
}

func vsimAfterFunc(d time.Duration, f func()) *time.Timer {
	t := time.AfterFunc(d, f)
	if s := vsim; s != nil {
		s.noteTimer(t, d)
	}
	return t
}

func vsimNewTimer(d time.Duration) *time.Timer {
	t := time.NewTimer(d)
	if s := vsim; s != nil {
		s.noteTimer(t, d)
	}
	return t
}

func vsimTimerReset(t *time.Timer, d time.Duration) bool {
	r := t.Reset(d)
	if s := vsim; s != nil {
		s.noteTimer(t, d)
	}
	return r
}

func vsimTimerStop(t *time.Timer) bool {
	r := t.Stop()
	if s := vsim; s != nil {
		s.lockMu()
		delete(s.timerDue, t)
		s.unlockMu()
	}
	return r
}

// nextTimerDue returns the earliest recorded timer expiry in (from, to], if any.
func (s *vsimSim) nextTimerDue(from, to time.Time) (time.Time, bool) {
	s.lockMu()
	defer s.unlockMu()
	var best time.Time
	ok := false
	for t, due := range s.timerDue {
		if !due.After(from) {
			if due.Before(from.Add(-time.Minute)) {
				delete(s.timerDue, t) // long expired
			}
			continue
		}
		if due.After(to) {
			continue
		}
		if !ok || due.Before(best) {
			best, ok = due, true
		}
	}
	return best, ok
}
