package sctp

// Entry point of the simulation test binary. One OS process = one worker.
//
//	sim.test -test.run '^TestVsim$' -vsim.prop C01 -vsim.seed0 1000 -vsim.n 200 -vsim.out res.jsonl
//	sim.test -test.run '^TestVsim$' -vsim.replay file.json

import (
	"encoding/json"
	"flag"
	"fmt"
	"io"
	"os"
	"runtime"
	"runtime/debug"
	"strings"
	"sync/atomic"
	"testing"
	"testing/cryptotest"
	"time"
)

var (
	flagProp    = flag.String("vsim.prop", "", "property id (C01..C20) or scenario name")
	flagSeed0   = flag.Uint64("vsim.seed0", 1, "first seed")
	flagN       = flag.Int("vsim.n", 1, "number of seeds to run (0 = until budget)")
	flagStride  = flag.Uint64("vsim.stride", 1, "seed stride")
	flagOut     = flag.String("vsim.out", "", "JSONL output file (default stdout)")
	flagBudget  = flag.Duration("vsim.budget", 0, "wall-clock budget for this worker (0 = none)")
	flagReplay  = flag.String("vsim.replay", "", "replay file")
	flagVerbose = flag.Bool("vsim.v", false, "record and print the full trace")
	flagDebug   = flag.Bool("vsim.debuglog", false, "capture the library's debug log lines in the trace")
	flagTier    = flag.String("vsim.tier", "quick", "quick | thorough")
	flagStop    = flag.Bool("vsim.stop", true, "stop at the first violation")
	flagTapes   = flag.Bool("vsim.tapes", false, "include the consumed tapes in every result")
	flagMode    = flag.String("vsim.mode", "search", "search | minimize | determinism")
	flagParams  = flag.String("vsim.params", "", "JSON object of scenario parameters")
	flagOwn     = flag.String("vsim.own", "", "comma-separated property ids whose violations stop the worker (default: all)")
	flagKnown   = flag.String("vsim.known", "", "comma-separated PROP:class pairs that are recorded known findings")
	flagWatchdog = flag.Duration("vsim.watchdog", 120*time.Second, "wall-clock limit for one run")
	flagMutants  = flag.Int("vsim.mutants", 0, "neighbourhood search: base energy (mutated re-runs per seed; more for seeds that reach rare probes)")
)

var vsimProgress atomic.Int64

type scenarioDef struct {
	name string
	fn   scenario
}

var scenarios = map[string]scenario{}

func registerScenario(name string, fn scenario) { scenarios[name] = fn }

// two-pass scenarios: a fault-free reference pass of the seed tells where faults can be placed
var twoPass = map[string]func(seed uint64, r1 *runResult) map[string]int{}

func registerTwoPass(name string, f func(seed uint64, r1 *runResult) map[string]int) { twoPass[name] = f }

// twin scenarios: the same seed is run twice with different parameters and the observable
// histories (API events, emitted packets, with their virtual times) must be identical.
type twinDef struct {
	// variants returns the parameters of the primary and of the reference run
	variants func(seed uint64, params map[string]int) (a, b map[string]int)
	// verdict names property / class / explanation for a mismatch
	verdict func(a map[string]int, ra, rb *runResult) (prop, class, msg string)
	// asymmetric: a violation (of any property) reached by the primary run only counts as a difference
	asymmetric bool
}

var twins = map[string]twinDef{}

func registerTwin(name string, d twinDef) { twins[name] = d }

// execRun runs a scenario once, or as a twin pair when the scenario is registered as one.
func execRun(t *testing.T, name string, sc scenario, o runOpts) *runResult {
	td, ok := twins[name]
	if !ok {
		return runOne(t, sc, o)
	}
	pa, pb := td.variants(o.seed, copyParams(o.params))
	oa := o
	oa.params = pa
	oa.keepObs = true
	cryptotest.SetGlobalRandom(t, o.seed)
	ra := runOne(t, sc, oa)
	ra.Params = pa
	if td.asymmetric && ra.Violation != nil && ra.Aborted == "" && ra.Leak == "" {
		// shifted twins: a verdict that only the primary run reaches is itself a difference
		ob := o
		ob.params = pb
		ob.verbose, ob.keepTapes, ob.keepObs = false, false, true
		cryptotest.SetGlobalRandom(t, o.seed)
		rb := runOne(t, sc, ob)
		if rb.Leak != "" {
			ra.Leak = rb.Leak
		}
		if rb.Violation == nil && rb.Aborted == "" {
			prop, class, msg := td.verdict(pa, ra, rb)
			ra.Violation = &violation{Prop: prop, Class: class, Msg: fmt.Sprintf("%s: the run ends with the verdict %s/%s (%s), the reference run completes without one", msg, ra.Violation.Prop, ra.Violation.Class, ra.Violation.Msg)}
		}
		return ra
	}
	if ra.Violation != nil || ra.Aborted != "" || ra.Leak != "" {
		return ra
	}
	ob := o
	ob.params = pb
	ob.verbose, ob.keepTapes, ob.keepObs = false, false, true
	cryptotest.SetGlobalRandom(t, o.seed)
	rb := runOne(t, sc, ob)
	if rb.Violation != nil || rb.Aborted != "" {
		// the reference run has its own verdict: report it (it is an ordinary run)
		rb.Params = pb
		rb.Tapes = ra.Tapes
		return rb
	}
	if rb.Leak != "" {
		ra.Leak = rb.Leak
	}
	if ra.ObsHash != rb.ObsHash {
		prop, class, msg := td.verdict(pa, ra, rb)
		i := 0
		for i < len(ra.obs) && i < len(rb.obs) && ra.obs[i] == rb.obs[i] {
			i++
		}
		ea, eb := "<end>", "<end>"
		if i < len(ra.obs) {
			ea = ra.obs[i]
		}
		if i < len(rb.obs) {
			eb = rb.obs[i]
		}
		if d := os.Getenv("VSIM_TWIN_DUMP"); d != "" {
			os.WriteFile(d+".a", []byte(strings.Join(ra.obs, "\n")), 0o644)
			os.WriteFile(d+".b", []byte(strings.Join(rb.obs, "\n")), 0o644)
		}
		ra.Violation = &violation{Prop: prop, Class: class, Msg: fmt.Sprintf("%s; first difference at observable event %d: with the packet %q, in the reference run %q", msg, i, ea, eb)}
	}
	if ra.Extra == nil {
		ra.Extra = map[string]any{}
	}
	ra.Extra["twin_compared"] = 1
	return ra
}

func copyParams(p map[string]int) map[string]int {
	o := map[string]int{}
	for k, v := range p {
		o[k] = v
	}
	return o
}

func thorough() bool { return *flagTier == "thorough" }

// watchdog runs outside any bubble (real clock).
func startWatchdog(limit time.Duration, what func() string) (stop func()) {
	done := make(chan struct{})
	go func() {
		last := vsimProgress.Load()
		lastChange := time.Now()
		tk := time.NewTicker(500 * time.Millisecond)
		defer tk.Stop()
		for {
			select {
			case <-done:
				return
			case <-tk.C:
				cur := vsimProgress.Load()
				if cur != last {
					last = cur
					lastChange = time.Now()
					continue
				}
				if time.Since(lastChange) > limit {
					buf := make([]byte, 1<<20)
					n := runtime.Stack(buf, true)
					fmt.Fprintf(os.Stderr, "WATCHDOG: no progress for %v during %s\n%s\n", limit, what(), buf[:n])
					fmt.Printf("{\"watchdog\":%q}\n", what())
					os.Exit(3)
				}
			}
		}
	}()
	return func() { close(done) }
}

func TestVsim(t *testing.T) {
	if *flagProp == "" && *flagReplay == "" {
		t.Skip("no -vsim.prop")
	}
	debug.SetGCPercent(400)
	for _, k := range strings.Split(*flagKnown, ",") {
		if k != "" {
			knownClasses[k] = true
		}
	}
	var out io.Writer = os.Stdout
	if *flagOut != "" {
		f, err := os.OpenFile(*flagOut, os.O_CREATE|os.O_WRONLY|os.O_APPEND, 0o644)
		if err != nil {
			t.Fatal(err)
		}
		defer f.Close()
		out = f
	}
	enc := json.NewEncoder(out)
	params := map[string]int{}
	if *flagParams != "" {
		if err := json.Unmarshal([]byte(*flagParams), &params); err != nil {
			fmt.Fprintf(os.Stderr, "bad -vsim.params: %v\n", err)
			os.Exit(2)
		}
	}

	if *flagReplay != "" && *flagMode == "minimize" {
		stop := startWatchdog(*flagWatchdog, func() string { return "minimize " + *flagReplay })
		defer stop()
		minimizeMain(t)
		return
	}
	if *flagReplay != "" {
		replayMain(t, enc)
		return
	}
	sc, ok := scenarios[*flagProp]
	if !ok {
		fmt.Fprintf(os.Stderr, "unknown scenario %q\n", *flagProp)
		os.Exit(2)
	}
	current := ""
	stop := startWatchdog(*flagWatchdog, func() string { return current })
	defer stop()
	start := time.Now()
	seed := *flagSeed0
	for i := 0; *flagN == 0 || i < *flagN; i++ {
		if *flagBudget > 0 && time.Since(start) > *flagBudget {
			break
		}
		current = fmt.Sprintf("prop=%s seed=%d", *flagProp, seed)
		if vsimRaceBuild {
			// a race report ends the process: say which run it belongs to
			fmt.Fprintf(os.Stderr, "VSIM-RUN seed=%d\n", seed)
		}
		vsimProgress.Add(1)
		runParams := copyParams(params)
		if _, given := runParams["sched_mode"]; !given && twins[*flagProp].variants == nil && twoPass[*flagProp] == nil && schedModeOf(seed) == 1 {
			// the schedule family is a function of the seed and travels with the run as a parameter (replay files
			// recorded before the priority schedule existed have none: random walk)
			runParams["sched_mode"] = 1
		}
		if derive := twoPass[*flagProp]; derive != nil {
			if _, given := runParams["crash_kind"]; !given {
				cryptotest.SetGlobalRandom(t, seed)
				r1 := runOne(t, sc, runOpts{seed: seed, prop: *flagProp, params: copyParams(params)})
				if r1.Violation != nil || r1.Aborted != "" {
					// the reference pass itself has a verdict: report it as it is
					r1.Params = copyParams(params)
					r1.Params["crash_kind"] = -1 // replay: reference pass only
					if r1.Violation != nil {
						cryptotest.SetGlobalRandom(t, seed)
						r1b := runOne(t, sc, runOpts{seed: seed, prop: *flagProp, keepTapes: true, params: copyParams(params)})
						r1.Tapes, r1.Config = r1b.Tapes, r1b.Config
					}
					_ = enc.Encode(r1)
					if r1.Violation != nil && *flagStop && ownsViolation(r1.Violation.Prop) {
						break
					}
					seed += *flagStride
					continue
				}
				if runParams["crash_sweep"] != 0 {
					// systematic leg: every crash kind x side x wire event of this seed's fault-free pass
					// (base workloads with more than 512 wire events: every ceil(n/512)-th event, so that one base
					// stays bounded; the stride is part of the declared sub-space)
					nEv, _ := r1.Extra["wire_events"].(int)
					evStride := (nEv + 512) / 512
					nPoints := nEv/evStride + 1
					cells, bad, partial := 0, false, false
					for kind := 0; kind < 7 && !bad && !partial; kind++ {
						for side := 0; side < 2 && !bad && !partial; side++ {
							for ev := 0; ev <= nEv && !bad; ev += evStride {
								if *flagBudget > 0 && time.Since(start) > *flagBudget {
									// out of wall-clock budget inside a base workload: its cells so far are reported as
									// sampled runs, the base does not count as enumerated
									partial = true
									break
								}
								vsimProgress.Add(1)
								p := copyParams(params)
								p["crash_kind"], p["crash_side"], p["crash_ev"] = kind, side, ev
								cryptotest.SetGlobalRandom(t, seed)
								res := runOne(t, sc, runOpts{seed: seed, prop: *flagProp, params: copyParams(p)})
								res.Params = p
								if res.Violation != nil {
									cryptotest.SetGlobalRandom(t, seed)
									res2 := runOne(t, sc, runOpts{seed: seed, prop: *flagProp, keepTapes: true, params: copyParams(p)})
									res.Tapes, res.Config = res2.Tapes, res2.Config
								} else {
									res.Config = nil
								}
								if res.Extra == nil {
									res.Extra = map[string]any{}
								}
								res.Extra["sweep_cell"] = 1
								res.Extra["sweep_space_base"] = 14 * nPoints
								cells++
								_ = enc.Encode(res)
								if res.Violation != nil && *flagStop && ownsViolation(res.Violation.Prop) {
									bad = true
								}
								if res.Leak != "" {
									if f, ok := out.(*os.File); ok {
										_ = f.Sync()
									}
									os.Exit(4)
								}
							}
						}
					}
					fmt.Fprintf(os.Stderr, "VSIM-SWEEP seed=%d cells=%d space=%d partial=%v\n", seed, cells, 14*nPoints, partial)
					if bad || partial {
						break
					}
					seed += *flagStride
					continue
				}
				for k, v := range derive(seed, r1) {
					runParams[k] = v
				}
			}
		}
		cryptotest.SetGlobalRandom(t, seed)
		res := execRun(t, *flagProp, sc, runOpts{seed: seed, prop: *flagProp, verbose: *flagVerbose, debugLog: *flagDebug, keepTapes: *flagTapes || *flagMutants > 0, params: copyParams(runParams)})
		res.Params = runParams
		if !*flagTapes && res.Violation == nil {
			res.Config = nil
		}
		baseTapes := res.Tapes
		if !*flagTapes && res.Violation == nil {
			res.Tapes = nil
		}
		if res.Violation != nil && res.Tapes == nil {
			// re-run is not needed: ask for tapes up front when a violation is found
			cryptotest.SetGlobalRandom(t, seed)
			res2 := execRun(t, *flagProp, sc, runOpts{seed: seed, prop: *flagProp, keepTapes: true, params: copyParams(runParams)})
			if res2.Violation == nil || res2.Hash != res.Hash {
				res.Notes = append(res.Notes, fmt.Sprintf("NONDETERMINISM on re-run: hash %s vs %s, violation %v", res.Hash, res2.Hash, res2.Violation))
				res.Aborted = "nondeterminism: re-run of the violating seed differs"
			} else {
				res.Tapes = res2.Tapes
				res.Config = res2.Config
			}
		}
		if err := enc.Encode(res); err != nil {
			t.Fatal(err)
		}
		if *flagVerbose {
			for _, l := range res.Trace {
				fmt.Fprintln(os.Stderr, l)
			}
		}
		if res.Violation != nil && *flagStop && ownsViolation(res.Violation.Prop) {
			break
		}
		if *flagMutants > 0 && res.Violation == nil && res.Aborted == "" && res.Leak == "" && twins[*flagProp].variants == nil && twoPass[*flagProp] == nil {
			if bad, leak := mutantRuns(t, enc, sc, seed, res, baseTapes, runParams, start); bad || leak {
				if leak {
					if f, ok := out.(*os.File); ok {
						_ = f.Sync()
					}
					os.Exit(4)
				}
				break
			}
		}
		if res.Leak != "" {
			// goroutines of this run are still blocked in its (dead) bubble; they must never meet
			// the hooks of a later run: ask the orchestrator for a fresh process
			if f, ok := out.(*os.File); ok {
				_ = f.Sync()
			}
			os.Exit(4)
		}
		seed += *flagStride
	}
}

func ownsViolation(p string) bool {
	if *flagOwn == "" {
		return true
	}
	for _, o := range strings.Split(*flagOwn, ",") {
		if o == p {
			return true
		}
	}
	return false
}

func replayMain(t *testing.T, enc *json.Encoder) {
	b, err := os.ReadFile(*flagReplay)
	if err != nil {
		fmt.Fprintf(os.Stderr, "replay: %v\n", err)
		os.Exit(2)
	}
	var rf replayFile
	if err := json.Unmarshal(b, &rf); err != nil {
		fmt.Fprintf(os.Stderr, "replay: %v\n", err)
		os.Exit(2)
	}
	sc, ok := scenarios[rf.Scenario]
	if !ok {
		fmt.Fprintf(os.Stderr, "replay: unknown scenario %q\n", rf.Scenario)
		os.Exit(2)
	}
	*flagTier = rf.Tier
	cryptotest.SetGlobalRandom(t, rf.Seed)
	res := execRun(t, rf.Scenario, sc, runOpts{seed: rf.Seed, prop: rf.Scenario, replay: rf.Tapes, verbose: *flagVerbose, debugLog: *flagDebug, params: rf.Params})
	_ = enc.Encode(res)
	if *flagVerbose {
		for _, l := range res.Trace {
			fmt.Fprintln(os.Stderr, l)
		}
	}
}

// replayFile is the on-disk form of a (minimised) failing run.
type replayFile struct {
	Property string              `json:"property"`
	Scenario string              `json:"scenario"`
	Class    string              `json:"class"`
	Message  string              `json:"message"`
	Seed     uint64              `json:"seed"`
	Tier     string              `json:"tier"`
	Hash     string              `json:"hash"`
	Params   map[string]int      `json:"params,omitempty"`
	Tapes    map[string][]uint32 `json:"tapes"`
	Config   *runConfig          `json:"config,omitempty"`
	Trace    []string            `json:"trace,omitempty"`
}

// ---------------------------------------------------------------- neighbourhood search (mutated tapes)

// Energy is a function of the run itself (so that the mutants explored for a seed do not depend on what the worker
// process ran before): a base run gets -vsim.mutants re-runs, more if it met a recorded known finding (those sit next
// to the states in which the repaired defects of the same families lived); a mutant that reaches a probe or a known
// class its parent did not reach becomes a parent itself (at most two more generations).
func freshOver(r *runResult, probes, known map[string]int) (n int) {
	for k := range r.Probes {
		if probes[k] == 0 {
			n++
		}
	}
	for k := range r.Known {
		if known[k] == 0 {
			n += 2
		}
	}
	return n
}

// mutable tapes: decisions of the environment (schedule, network, adversary); configuration and workload stay fixed
var mutableTapes = []string{"net.AB", "net.BA", "sched", "selorder", "maporder", "adversary"}

// mutateTapes returns a copy of the tapes with one to three decisions changed: a decision that was taken (non-zero)
// is withdrawn, one that was not taken is taken (value 1..3). The choice is a pure function of (seed, serial).
func mutateTapes(base map[string][]uint32, seed uint64, serial int) (map[string][]uint32, string) {
	rng := vsimNewTape(fmt.Sprintf("mutate.%d", serial), seed)
	out := map[string][]uint32{}
	for k, v := range base {
		out[k] = append([]uint32(nil), v...)
	}
	k := 1
	switch rng.next() % 10 {
	case 5, 6, 7:
		k = 2
	case 8, 9:
		k = 3
	}
	desc := ""
	for i := 0; i < k; i++ {
		var name string
		switch r := rng.next() % 20; {
		case r < 5:
			name = "net.AB"
		case r < 10:
			name = "net.BA"
		case r < 16:
			name = "sched"
		default:
			name = mutableTapes[3+int(rng.next()%3)]
		}
		tp := out[name]
		if len(tp) == 0 {
			continue
		}
		pos := int(rng.next() % uint64(len(tp)))
		if rng.next()%3 == 0 {
			// prefer a decision that was taken in the base run (they are few): withdraw or move it
			var taken []int
			for j, v := range tp {
				if v != 0 {
					taken = append(taken, j)
				}
			}
			if len(taken) > 0 {
				pos = taken[int(rng.next()%uint64(len(taken)))]
			}
		}
		if tp[pos] != 0 {
			tp[pos] = 0
		} else {
			tp[pos] = 1 + uint32(rng.next()%3)
		}
		desc += fmt.Sprintf("%s[%d]=%d ", name, pos, tp[pos])
	}
	return out, desc
}

// mutantRuns re-runs a seed with mutated decision tapes. Returns bad (an owned violation was reported: stop) and leak.
func mutantRuns(t *testing.T, enc *json.Encoder, sc scenario, seed uint64, base *runResult, baseTapes map[string][]uint32, params map[string]int, start time.Time) (bad, leak bool) {
	if baseTapes == nil {
		return false, false
	}
	type job struct {
		tapes  map[string][]uint32
		probes map[string]int
		known  map[string]int
		energy int
		gen    int
	}
	energy := *flagMutants * (1 + 2*len(base.Known))
	if energy > 8**flagMutants {
		energy = 8 * *flagMutants
	}
	queue := []job{{baseTapes, base.Probes, base.Known, energy, 0}}
	serial := 0
	for len(queue) > 0 {
		j := queue[0]
		queue = queue[1:]
		for e := 0; e < j.energy; e++ {
			if *flagBudget > 0 && time.Since(start) > *flagBudget {
				return false, false
			}
			serial++
			vsimProgress.Add(1)
			mt, desc := mutateTapes(j.tapes, seed, serial)
			cryptotest.SetGlobalRandom(t, seed)
			r := runOne(t, sc, runOpts{seed: seed, prop: *flagProp, replay: mt, keepTapes: true, params: copyParams(params)})
			r.Params = params
			if r.Extra == nil {
				r.Extra = map[string]any{}
			}
			r.Extra["mutant"] = 1
			r.Notes = append(r.Notes, fmt.Sprintf("mutant %d (generation %d) of seed %d: %s", serial, j.gen+1, seed, desc))
			consumed := r.Tapes
			if r.Violation != nil {
				// the consumed tapes are the replay; they must reproduce the verdict
				cryptotest.SetGlobalRandom(t, seed)
				r2 := runOne(t, sc, runOpts{seed: seed, prop: *flagProp, replay: consumed, keepTapes: true, params: copyParams(params)})
				if r2.Violation == nil || r2.Hash != r.Hash {
					r.Notes = append(r.Notes, fmt.Sprintf("NONDETERMINISM on re-run of a mutant: hash %s vs %s, violation %v", r.Hash, r2.Hash, r2.Violation))
					r.Aborted = "nondeterminism: re-run of the violating mutant differs"
				}
				r.Config = r2.Config
			} else {
				r.Tapes, r.Config = nil, nil
			}
			_ = enc.Encode(r)
			if r.Leak != "" {
				return false, true
			}
			if r.Violation != nil && *flagStop && ownsViolation(r.Violation.Prop) {
				return true, false
			}
			if r.Violation == nil && r.Aborted == "" && j.gen < 2 {
				if fresh := freshOver(r, j.probes, j.known); fresh > 0 {
					en := *flagMutants * fresh
					if en > 4**flagMutants {
						en = 4 * *flagMutants
					}
					queue = append(queue, job{consumed, r.Probes, r.Known, en, j.gen + 1})
				}
			}
		}
	}
	return false, false
}

// schedModeOf: one run in four uses the priority schedule (see vsimSim.prioMode).
func schedModeOf(seed uint64) int {
	z := seed*0x9e3779b97f4a7c15 + 0x7f4a7c15
	z = (z ^ (z >> 30)) * 0xbf58476d1ce4e5b9
	z = (z ^ (z >> 27)) * 0x94d049bb133111eb
	z ^= z >> 31
	if z%4 == 0 {
		return 1
	}
	return 0
}
