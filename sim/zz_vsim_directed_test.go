package sctp

// Directed scenarios: small hand-written histories used as witnesses of
// recorded findings (open ones must keep failing in their class, fixed ones
// must pass) and as regression anchors that do not depend on the generators.
// They run through the same executor, monitor and oracles as the seeded search.

import (
	"time"
)

func init() {
	registerScenario("D_heartbeat", dHeartbeat)
	registerScenario("D_lifetime", func(w *world) { dPRLoss(w, false, ReliabilityTypeTimed, 50, 1, 4, 8*time.Second, false) })
	registerScenario("D_fwd_unordered_listing", dFwdUnorderedListing)
	registerScenario("D_probe_rwnd", dProbeRwnd)
	registerScenario("D_pr_fragmented_rexmit", func(w *world) { dPRLoss(w, false, ReliabilityTypeRexmit, 0, 4637, 3, 5*time.Second, false) })
	registerScenario("D_pr_fragmented_timed", func(w *world) { dPRLoss(w, false, ReliabilityTypeTimed, 50, 4637, 8, 5*time.Second, false) })
	registerScenario("D_recv_unordered_guard", dRecvUnorderedGuard)
	registerScenario("D_fwd_unknown_stream", dFwdUnknownStream)
	registerScenario("D_idata_fragment_after_forward", dIDataFragmentAfterForward)
	registerScenario("D_pr_after_peer_reset", dPRAfterPeerReset)
	registerScenario("D_deadline_rearm", dDeadlineRearm)
}

func directedConfig(w *world, interleaving bool) *runConfig {
	cfg := &runConfig{StepBudget: 400000}
	cfg.Side[0].Role, cfg.Side[1].Role = "client", "server"
	cfg.Side[0].Interleaving, cfg.Side[1].Interleaving = interleaving, interleaving
	for i := range cfg.Fault {
		cfg.Fault[i].LatencyUs = 10000
	}
	return cfg
}

func directedStart(w *world, cfg *runConfig) (*xfer, *wireMon, bool) {
	w.params = mergeParams(w.params, map[string]int{"phase_ms": 5000})
	w.setup(cfg)
	x := newXfer(w)
	mon := w.installMonitor(x)
	if !w.connect(120*time.Second) || w.eps[0].connErr != nil || w.eps[1].connErr != nil {
		if w.viol == nil && w.aborted == "" {
			w.violate("C04", "no-faults-handshake", "fault-free handshake failed: %v / %v", w.eps[0].connErr, w.eps[1].connErr)
		}
		return nil, nil, false
	}
	return x, mon, true
}

// dropDataOnce drops the first n packets of direction dir that carry DATA / I-DATA.
func dropDataOnce(w *world, dir int, n int) {
	left := n
	prev := w.net.filter
	w.net.filter = func(d int, idx int, p *wirePacket) planAction {
		if d == dir && left > 0 {
			for _, c := range p.chunks {
				if c.isData() {
					left--
					w.probe("directed-drop")
					return planDrop
				}
			}
		}
		if prev != nil {
			return prev(d, idx, p)
		}
		return planNone
	}
}

// dPRLoss: one partially reliable stream A->B, the first DATA packet(s) are lost.
func dPRLoss(w *world, unordered bool, relType byte, relVal uint32, size int, drops int, phase time.Duration, interleaving bool) {
	x, mon, ok := directedStart(w, directedConfig(w, interleaving))
	if !ok {
		return
	}
	x.dirs = []*xferDir{{sid: 1, from: 0, unordered: unordered, relType: relType, relVal: relVal, sizes: []int{size, 10, 10}, preopen: true, setRecvParams: true}}
	dropDataOnce(w, 0, drops)
	w.params["phase_ms"] = int(phase / time.Millisecond)
	runXfer(w, x, mon, false, true)
}

func mergeParams(a, b map[string]int) map[string]int {
	o := map[string]int{}
	for k, v := range b {
		o[k] = v
	}
	for k, v := range a {
		o[k] = v
	}
	return o
}

// dHeartbeat: an on-demand heartbeat on a lossless link must carry its
// information, be answered, and yield a round-trip sample (C12, C19).
func dHeartbeat(w *world) {
	_, _, ok := directedStart(w, directedConfig(w, false))
	if !ok {
		return
	}
	a := w.eps[0].assoc
	before := a.SRTT()
	w.sim.spawnClient("heartbeat.A", "A", func() {
		a.ActiveHeartbeat()
		w.apiEvent(w.eps[0], "heartbeat", "")
	})
	w.sleep(2 * time.Second)
	if w.viol != nil {
		return
	}
	sawHB, sawAck := false, false
	for _, p := range w.pkts[0] {
		for _, c := range p.chunks {
			if c.typ == wtHEARTBEAT {
				sawHB = true
			}
		}
	}
	for _, p := range w.pkts[1] {
		for _, c := range p.chunks {
			if c.typ == wtHBACK {
				sawAck = true
			}
		}
	}
	if !sawHB {
		w.violate("C19", "heartbeat-not-sent", "ActiveHeartbeat did not put a HEARTBEAT on the wire")
		return
	}
	if !sawAck {
		w.violate("C19", "heartbeat-not-answered", "the peer did not answer an on-demand HEARTBEAT with a HEARTBEAT-ACK within 2 s on a lossless link")
		return
	}
	if a.SRTT() == before || a.SRTT() <= 0 {
		w.violate("C19", "heartbeat-no-rtt-sample", "HEARTBEAT-ACK was delivered but SRTT stayed %v (round trip is 20 ms)", a.SRTT())
	}
}

// dFwdUnorderedListing: an abandoned unordered message must not make the
// FORWARD-TSN name its stream; a following ordered (DCEP) message on the same
// stream must still be delivered.
func dFwdUnorderedListing(w *world) {
	x, mon, ok := directedStart(w, directedConfig(w, false))
	if !ok {
		return
	}
	d := &xferDir{sid: 2, from: 0, unordered: true, relType: ReliabilityTypeRexmit, relVal: 0, sizes: []int{20, 30, 40}, dcep: []bool{false, true, false}, preopen: true,
		gaps: []time.Duration{0, 3 * time.Second, 0}}
	x.dirs = []*xferDir{d}
	dropDataOnce(w, 0, 1)
	runXfer(w, x, mon, false, true)
}

// dProbeRwnd: the receiver's window closes; the sender's window probe must count against it.
func dProbeRwnd(w *world) {
	cfg := directedConfig(w, false)
	cfg.Side[1].RecvBuf = 4096
	for i := range cfg.Fault {
		cfg.Fault[i].LatencyUs = 0
	}
	x, mon, ok := directedStart(w, cfg)
	if !ok {
		return
	}
	d := &xferDir{sid: 0, from: 0, sizes: []int{1, 1, 1014, 513, 513, 513, 513, 1, 671, 513, 1, 1}, preopen: true, readPause: 1, pauseFor: time.Second}
	x.dirs = []*xferDir{d}
	runXfer(w, x, mon, false, false)
}

// dRecvUnorderedGuard: ordered partially reliable data arrives on a stream whose
// receiving Stream object is configured unordered; the first message is lost
// and abandoned; the following ordered message must still be delivered.
func dRecvUnorderedGuard(w *world) {
	x, mon, ok := directedStart(w, directedConfig(w, false))
	if !ok {
		return
	}
	d := &xferDir{sid: 3, from: 0, unordered: false, relType: ReliabilityTypeRexmit, relVal: 0, sizes: []int{20, 30}, preopen: true, recvUnordered: 1,
		gaps: []time.Duration{0, 3 * time.Second}}
	x.dirs = []*xferDir{d}
	dropDataOnce(w, 0, 1)
	runXfer(w, x, mon, false, true)
}

// dFwdUnknownStream: the first message on a stream the receiver has never seen
// is lost and abandoned; the FORWARD-TSN reaches an endpoint that has no such
// stream yet; the next ordered message must still be delivered.
func dFwdUnknownStream(w *world) {
	x, mon, ok := directedStart(w, directedConfig(w, false))
	if !ok {
		return
	}
	d := &xferDir{sid: 4, from: 0, unordered: false, relType: ReliabilityTypeRexmit, relVal: 0, sizes: []int{20, 30}, preopen: false,
		gaps: []time.Duration{0, 3 * time.Second}}
	x.dirs = []*xferDir{d}
	dropDataOnce(w, 0, 1)
	runXfer(w, x, mon, false, true)
}

// dIDataFragmentAfterForward: with interleaving, the first fragment of an
// unordered message is lost (message abandoned) while its last fragment is
// delayed past the I-FORWARD-TSN; the late fragment must not be held for ever.
func dIDataFragmentAfterForward(w *world) {
	cfg := directedConfig(w, true)
	cfg.Side[0].MTU = 100
	x, mon, ok := directedStart(w, cfg)
	if !ok {
		return
	}
	// two streams so that the fragments of the abandoned message are not contiguous in TSN
	d1 := &xferDir{sid: 5, from: 0, unordered: true, relType: ReliabilityTypeRexmit, relVal: 0, sizes: []int{200}, preopen: true, setRecvParams: true}
	d2 := &xferDir{sid: 6, from: 0, unordered: true, relType: ReliabilityTypeReliable, sizes: []int{200}, preopen: true, setRecvParams: true}
	x.dirs = []*xferDir{d1, d2}
	state := 0
	w.net.planDelayBy = 25 * time.Millisecond
	w.net.filter = func(dir int, idx int, p *wirePacket) planAction {
		if dir != 0 {
			return planNone
		}
		for _, c := range p.chunks {
			if c.typ == wtIDATA && c.sid == 5 && c.begin && state == 0 {
				state = 1
				return planDrop
			}
			if c.typ == wtIDATA && c.sid == 5 && c.end && state == 1 {
				state = 2
				return planDelay
			}
		}
		return planNone
	}
	runXfer(w, x, mon, false, true)
}

// dPRAfterPeerReset: the peer resets its direction of a stream id; this side keeps
// sending on the same id with a retransmission limit of 0; a packet is lost.
func dPRAfterPeerReset(w *world) {
	x, mon, ok := directedStart(w, directedConfig(w, false))
	if !ok {
		return
	}
	dA := &xferDir{sid: 7, from: 0, unordered: true, relType: ReliabilityTypeRexmit, relVal: 0, sizes: []int{10, 600, 10, 10}, preopen: true,
		gaps: []time.Duration{0, 2 * time.Second, 0, 0}}
	dB := &xferDir{sid: 7, from: 1, unordered: true, relType: ReliabilityTypeReliable, sizes: []int{10}, preopen: true}
	x.dirs = []*xferDir{dA, dB}
	// B closes its direction once it has written
	w.sim.spawnClient("closer.B.7", "B", func() {
		for !dB.writerDone {
			h := vsimBlocking("client.sleep")
			time.Sleep(10 * time.Millisecond)
			vsimWoke(h)
		}
		_ = dB.tx.s.Close()
		w.apiEvent(w.eps[1], "close", "sid=7")
	})
	// lose the 600-byte message of A once (it is written 2 s later, after the reset arrived)
	dropped := false
	w.net.filter = func(dir int, idx int, p *wirePacket) planAction {
		if dir == 0 && !dropped {
			for _, c := range p.chunks {
				if c.isData() && len(c.userData) == 600 {
					dropped = true
					w.probe("directed-drop")
					return planDrop
				}
			}
		}
		return planNone
	}
	runXfer(w, x, mon, false, false)
}

// dDeadlineRearm: read deadlines that expire at the very instant data arrives and the reader
// re-arms the deadline; a seeded schedule decides the order of the timer goroutine, the
// packet and the reader (witness of the fixed stale-deadline race; run over many seeds).
func dDeadlineRearm(w *world) {
	cfg := directedConfig(w, false)
	for i := range cfg.Fault {
		cfg.Fault[i].LatencyUs = 5000
	}
	cfg.YieldPPM = pick[uint32](w.ctape, 0, 20000, 200000, 500000)
	cfg.SwitchPPM = pick[uint32](w.ctape, 200000, 1000000, 1000000)
	x, mon, ok := directedStart(w, cfg)
	if !ok {
		return
	}
	w.params["phase_ms"] = 400
	w.params["deadline_ms"] = 5
	d := &xferDir{sid: 0, from: 0, sizes: make([]int, 12), gaps: make([]time.Duration, 12), preopen: true, deadlines: true}
	for i := range d.sizes {
		d.sizes[i] = 1 + w.wtape.intn(300)
		d.gaps[i] = 5 * time.Millisecond
	}
	x.dirs = []*xferDir{d}
	runXfer(w, x, mon, false, false)
}

// dEmptyWrite: an empty write between two messages must not disturb the later one (C18).
func dEmptyWrite(w *world) {
	x, mon, ok := directedStart(w, directedConfig(w, w.ctape.intn(2) == 0))
	if !ok {
		return
	}
	w.params["phase_ms"] = 300
	d := &xferDir{sid: 3, from: 0, sizes: []int{10, 20, 30}, preopen: true}
	x.dirs = []*xferDir{d}
	// the writer of x.start() is not used here: write 10, empty, 20, 30 by hand through oddWrite's path
	d.oddWrites = true
	w.params["odd_force"] = 2
	runXfer(w, x, mon, false, false)
}

func init() { registerScenario("D_empty_write", dEmptyWrite) }

// dWFQSticky: three streams fill the congestion window, a fourth stream with a larger weight
// is written while the window is closed; it must get its weighted share at once (C17).
func dWFQSticky(w *world) {
	cfg := directedConfig(w, true)
	cfg.Side[0].Scheduler = "wfq"
	cfg.Side[0].Weights = map[uint16]uint16{3: 4}
	x, mon, ok := directedStart(w, cfg)
	if !ok {
		return
	}
	w.params["phase_ms"] = 100
	for sid := uint16(0); sid < 3; sid++ {
		x.dirs = append(x.dirs, &xferDir{sid: sid, from: 0, unordered: true, sizes: []int{3477, 3477, 3477}, preopen: true})
	}
	x.dirs = append(x.dirs, &xferDir{sid: 3, from: 0, unordered: true, sizes: []int{3477, 3477, 3477, 3477, 3477}, preopen: true,
		gaps: []time.Duration{time.Millisecond, 0, 0, 0, 0}})
	runXfer(w, x, mon, false, false)
	if w.stopped() {
		return
	}
	mon.fairnessCheck(0, x)
}

func init() { registerScenario("D_wfq_sticky", dWFQSticky) }

// dDupSack: a DATA packet is duplicated by the network, the copy arrives after the original
// was acknowledged; the duplicate must be acknowledged at once (C19, RFC 9260 Sec 6.2).
func dDupSack(w *world) {
	x, mon, ok := directedStart(w, directedConfig(w, false))
	if !ok {
		return
	}
	mon.props["C19.ack"] = true
	mon.s[0].ample, mon.s[1].ample = true, true
	w.params["phase_ms"] = 2000
	w.params["keep_ample"] = 1
	x.dirs = []*xferDir{{sid: 1, from: 0, sizes: []int{100, 100}, preopen: true, gaps: []time.Duration{0, time.Second}}}
	w.net.planDelayBy = 400 * time.Millisecond
	done := false
	w.net.filter = func(dir int, idx int, p *wirePacket) planAction {
		if dir == 0 && !done {
			for _, c := range p.chunks {
				if c.isData() {
					done = true
					return planDupLate
				}
			}
		}
		return planNone
	}
	runXfer(w, x, mon, false, false)
}

func init() { registerScenario("D_dup_sack", dDupSack) }
