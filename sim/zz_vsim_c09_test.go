package sctp

// C09: Close, Abort or transport failure at any moment unblocks callers and
// leaks nothing. Crash points are wire events or scheduling steps of a
// reference (fault-free) pass of the same seed.

import (
	"context"
	"errors"
	"fmt"
	"strings"
	"time"
)

func init() {
	registerScenario("C09", scenarioCrash)
	registerTwoPass("C09", func(seed uint64, r1 *runResult) map[string]int {
		// pass 1 told us how many wire events and steps the fault-free run has
		ev, _ := r1.Extra["wire_events"].(int)
		steps, _ := r1.Extra["steps_total"].(int)
		h := vsimNewTape("crashpoint", seed)
		p := map[string]int{"crash_kind": h.intn(7), "crash_side": h.intn(2)}
		dlv, _ := r1.Extra["deliver_steps"].([]int)
		if r := h.intn(9); r < 3 && steps > 0 {
			p["crash_step"] = 1 + h.intn(steps)
		} else if r < 5 && len(dlv) > 0 {
			// teardown racing with the processing of an inbound packet: a few steps behind one of the deliveries
			p["crash_step"] = dlv[h.intn(len(dlv))] + 1 + h.intn(10)
		} else {
			p["crash_ev"] = h.intn(ev + 1)
		}
		return p
	})
}

const (
	crashClose = iota
	crashAbort
	crashReadErr
	crashWriteErr
	crashConnClose
	crashDoubleClose
	crashCloseAfterAbort
)

var crashNames = []string{"Close", "Abort", "transport-read-error", "transport-write-error", "conn.Close", "two-concurrent-Close", "Close-after-Abort"}

func scenarioCrash(w *world) {
	cfg := genConfig(w, cfgOpts{wrapBias: false, maxLossPPM: 150000, blockWriteOK: true})
	tp := w.wtape
	base := w.ctape.intn(5)
	w.setup(cfg)
	x := newXfer(w)
	mon := w.installMonitor(x)
	_ = mon

	kind, hasKind := w.params["crash_kind"]
	side := w.params["crash_side"]
	crashEv, byEv := w.params["crash_ev"]
	crashStep, byStep := w.params["crash_step"]
	armed := hasKind && kind >= 0 && (byEv || byStep)
	X := w.eps[side]
	Y := w.eps[1-side]
	reason := fmt.Sprintf("vsim-abort-%d", w.seed%1000)

	fired := false
	var firedAt time.Duration
	var firedSeq int64
	var faultCalls []*apiCall
	fire := func() {
		if fired {
			return
		}
		fired = true
		firedAt = w.now()
		firedSeq = w.evSeq
		k := kind
		if X.assoc == nil && (k == crashClose || k == crashAbort || k == crashDoubleClose || k == crashCloseAfterAbort) {
			// before the connect call returned there is no association object to call: the only
			// way to give up is to close the transport
			k = crashConnClose
		}
		w.probe("fault." + crashNames[k])
		w.logf("FAULT %s on %s at t=%v", crashNames[k], X.name, firedAt)
		doClose := func(tag string) {
			w.sim.spawnClient("fault."+tag+"."+X.name, X.name, func() {
				c := w.beginCall(X, "Close", -1)
				faultCalls = append(faultCalls, c)
				err := X.assoc.Close()
				w.endCall(c, err)
				w.apiEvent(X, "Close", fmt.Sprintf("err=%v", err))
			})
		}
		doAbort := func(then func()) {
			w.sim.spawnClient("fault.abort."+X.name, X.name, func() {
				c := w.beginCall(X, "Abort", -1)
				faultCalls = append(faultCalls, c)
				X.assoc.Abort(reason)
				w.endCall(c, nil)
				w.apiEvent(X, "Abort", "")
				if then != nil {
					then()
				}
			})
		}
		switch k {
		case crashClose:
			doClose("close")
		case crashDoubleClose:
			doClose("close1")
			doClose("close2")
		case crashAbort:
			doAbort(nil)
		case crashCloseAfterAbort:
			doAbort(func() {
				c := w.beginCall(X, "Close", -1)
				faultCalls = append(faultCalls, c)
				err := X.assoc.Close()
				w.endCall(c, err)
			})
		case crashReadErr:
			X.conn.injectReadError(errSimInjected)
		case crashWriteErr:
			X.conn.injectWriteError(errSimInjected)
			// a write error is only noticed at the next write: provoke one
			if X.assoc != nil {
				a := X.assoc
				w.sim.spawnClient("fault.poke."+X.name, X.name, func() { a.ActiveHeartbeat() })
			}
		case crashConnClose:
			_ = X.conn.Close()
		}
	}
	if armed {
		if byEv {
			n := 0
			w.onEmitHook = func(p *wirePacket) {
				if n == crashEv {
					fire()
				}
				n++
			}
		}
		if byStep {
			w.stepCheck = func() {
				if !fired && w.sim.nSteps >= crashStep {
					fire()
				}
			}
		}
	}

	// ---- base scenario
	if base == 0 {
		// handshake under loss
		w.net.faultsOn = true
	} else {
		w.net.faultsOn = false
	}
	okc := w.connect(120 * time.Second)
	if w.stopped() {
		return
	}
	established := okc && w.eps[0].connErr == nil && w.eps[1].connErr == nil
	if !established && !fired {
		if base != 0 {
			w.violate("C04", "no-faults-handshake", "fault-free handshake failed: %v / %v", w.eps[0].connErr, w.eps[1].connErr)
			return
		}
		// a lossy handshake may legitimately fail; nothing more to do in this run
		w.probe("lossy-handshake-failed")
	}
	var sd *shutdownCall
	if established && !fired {
		w.net.faultsOn = true
		xo := xferOpts{maxStreams: 3, maxSID: 6, maxMsgs: 10, maxBytes: 100000, reliableOrderedOnly: tp.intn(2) == 0, slowReaders: base == 1, deadlines: true}
		x.dirs = genDirs(w, xo)
		for _, d := range x.dirs {
			d.dcep = nil
			rb := int(w.cfg.Side[1-d.from].RecvBuf)
			if rb == 0 {
				rb = 1024 * 1024
			}
			lim := rb / 2 / (len(x.dirs) + 1)
			for i := range d.sizes {
				if d.sizes[i] > lim {
					d.sizes[i] = 1 + lim/2
				}
			}
		}
		x.start()
		switch base {
		case 2:
			// stream resets in progress
			for _, d := range x.dirs {
				d := d
				w.sim.spawnClient(fmt.Sprintf("closer.%s.%d", w.eps[d.from].name, d.sid), w.eps[d.from].name, func() {
					for !d.writerDone {
						h := vsimBlocking("client.sleep")
						time.Sleep(10 * time.Millisecond)
						vsimWoke(h)
					}
					if d.tx != nil {
						_ = d.tx.s.Close()
					}
				})
			}
		case 3:
			// graceful shutdown in progress
			sd = &shutdownCall{side: tp.intn(2)}
			ep := w.eps[sd.side]
			w.sim.spawnClient("shutdown."+ep.name, ep.name, func() {
				h := vsimBlocking("client.sleep")
				time.Sleep(time.Duration(tp.intn(500)) * time.Millisecond)
				vsimWoke(h)
				c := w.beginCall(ep, "Shutdown", -1)
				err := ep.assoc.Shutdown(context.Background())
				w.endCall(c, err)
				sd.returned, sd.err = true, err
			})
		}
		// run the workload for a while (the fault may fire any time)
		w.run(func() bool { return fired }, w.now()+time.Duration(2+tp.intn(20))*time.Second)
		if w.stopped() {
			return
		}
	}
	if w.extra == nil {
		w.extra = map[string]any{}
	}
	w.extra["wire_events"] = len(w.allPkts)
	w.extra["steps_total"] = w.sim.nSteps
	if !armed {
		w.extra["deliver_steps"] = w.dlvSteps
	}
	w.extra["base"] = base
	if !armed {
		return // reference pass
	}
	if !fired {
		// the crash point lies beyond this run (it diverged from the reference pass): fire now
		fire()
	}

	// ---- after the fault
	k := kind
	if k == crashWriteErr {
		// the failure becomes visible to the library with the first write that fails
		w.run(func() bool { return X.conn.firstWriteErrSeq != 0 }, w.now()+70*time.Second)
		if w.stopped() {
			return
		}
		if X.conn.firstWriteErrSeq == 0 {
			w.probe("write-error-never-observed")
			return
		}
		firedAt, firedSeq = X.conn.firstWriteErrAt, X.conn.firstWriteErrSeq
	}
	flush := 10 * time.Millisecond
	if k == crashAbort || k == crashCloseAfterAbort {
		lat := time.Duration(w.cfg.Fault[0].LatencyUs+w.cfg.Fault[0].JitterUs) * time.Microsecond
		flush = 2*200*time.Millisecond + lat + 10*time.Millisecond
	}
	w.run(func() bool {
		if len(w.sim.enabledTasks()) != 0 {
			return false
		}
		for _, c := range w.calls {
			if c.ep == X && !c.done {
				return false
			}
		}
		return true
	}, w.now()+flush+2*time.Second)
	if w.stopped() {
		return
	}
	// every call that was blocked on X has returned, promptly, with an error
	for _, c := range w.calls {
		if c.ep != X || c.invokeSeq > firedSeq && c.op != "Close" && c.op != "Abort" {
			continue
		}
		if !c.done {
			w.violate("C09", "call-still-blocked", "%s: %s (stream %d), blocked when %s hit at t=%v, has not returned %v later; tasks:\n%s", X.name, c.op, c.sid, crashNames[kind], firedAt, w.now()-firedAt, w.sim.describeBlocked())
			return
		}
		if c.returnSeq < firedSeq {
			continue // had already returned before the fault
		}
		if d := c.returnAt - firedAt; d > flush {
			w.violate("C09", "call-returned-late", "%s: %s (stream %d) returned %v after %s (bound %v)", X.name, c.op, c.sid, d, crashNames[kind], flush)
			return
		}
		switch c.op {
		case "read", "accept", "connect":
			if c.err == nil && c.returnSeq > firedSeq+1 {
				// a read may still return data that was already queued; that is fine. An accept or a
				// connect that succeeds after the fault would be a silent success
				if c.op != "read" && c.invokeSeq < firedSeq && X.conn.closed {
					w.probe("call-succeeded-after-fault")
				}
			}
		}
	}
	// readers that were sleeping or looping on read deadlines must see the closure within the longest
	// deadline / pause they use
	patience := 12 * time.Second
	for _, d := range x.dirs {
		if d.pauseFor+d.readDelay > patience-2*time.Second {
			patience = d.pauseFor + d.readDelay + 2*time.Second
		}
	}
	rr := w.run(func() bool {
		for _, s := range X.streams {
			if !s.readerDone {
				return false
			}
		}
		return true
	}, w.now()+patience)
	if w.stopped() {
		return
	}
	if rr != stopCond {
		for _, s := range X.streams {
			if !s.readerDone {
				last := "none"
				if n := len(s.reads); n > 0 {
					last = fmt.Sprintf("%v", s.reads[n-1].err)
				}
				w.violate("C09", "reader-never-sees-closure", "%s stream %d: %v after %s the reader still has not got the close error or EOF (last read result: %s)", X.name, s.sid, patience, crashNames[kind], last)
				return
			}
		}
	}
	if X.assoc != nil {
		if st := accState(X.assoc); st != closed {
			w.violate("C09", "not-closed", "%s: state is %s after %s", X.name, getAssociationStateString(st), crashNames[kind])
			return
		}
	}
	w.quiesce(time.Second)
	if w.stopped() {
		return
	}
	if left := w.censusOf(X.name); len(left) > 0 {
		// (a read-deadline goroutine armed by the application ends at its deadline at the latest;
		// the readers above have already waited for the longest deadline)
		w.violate("C09", "tasks-left", "%s: tasks still alive after %s: %v\n%s", X.name, crashNames[kind], left, w.sim.describeBlocked())
		return
	}
	// repeated Close is harmless
	if X.assoc != nil {
		var again []*apiCall
		for i := 0; i < 2; i++ {
			w.sim.spawnClient(fmt.Sprintf("close-again%d.%s", i, X.name), X.name, func() {
				c := w.beginCall(X, "Close-again", -1)
				again = append(again, c)
				err := X.assoc.Close()
				w.endCall(c, err)
			})
		}
		w.run(func() bool { return len(again) == 2 && again[0].done && again[1].done }, w.now()+time.Second)
		if w.stopped() {
			return
		}
		for _, c := range again {
			if !c.done {
				w.violate("C09", "second-close-blocks", "%s: a repeated Close() has not returned after 1 s", X.name)
				return
			}
		}
	}
	// an ABORT that reached the peer closes it with an error carrying the cause
	if (k == crashAbort || k == crashCloseAfterAbort) && Y.assoc != nil {
		delivered := false
		for _, p := range w.pkts[side] {
			if p.hasChunk(wtABORT) && p.fate != "drop" && p.fate != "partition-drop" {
				delivered = true
			}
		}
		if delivered {
			w.run(func() bool { return accState(Y.assoc) == closed && len(w.censusOf(Y.name)) == 0 }, w.now()+3*time.Second)
			if w.stopped() {
				return
			}
			if accState(Y.assoc) == closed {
				w.probe("abort-delivered-peer-closed")
				w.quiesce(time.Second)
				for _, s := range Y.streams {
					if s.readerDone && s.readErr != nil && !isEOF(s.readErr) {
						if !errors.Is(s.readErr, ErrChunk) || !strings.Contains(s.readErr.Error(), reason) {
							// the reader may also have been released by an earlier event (e.g. graceful shutdown)
							if sd == nil {
								w.violate("C09", "abort-cause-lost", "%s stream %d: read error after the peer's ABORT is %q; expected the abort error carrying %q", Y.name, s.sid, s.readErr.Error(), reason)
								return
							}
						} else {
							w.probe("abort-cause-seen")
						}
					}
				}
			} else if sd == nil {
				w.violate("C09", "abort-ignored", "%s: the peer's ABORT was delivered but the association is in state %s 3 s later", Y.name, accStateName(Y.assoc))
				return
			}
		}
	}
	// nothing more happens on X: no task, no write
	writes := X.conn.nWrites + X.conn.nWriteAfterClose
	lib := w.libStepsOf(X.name)
	// keep the peer from talking to itself for ever: close it too
	if Y.assoc != nil && accState(Y.assoc) != closed {
		ya := Y.assoc
		w.sim.spawnClient("close-peer."+Y.name, Y.name, func() { _ = ya.Close() })
	} else if Y.assoc == nil {
		_ = Y.conn.Close()
	}
	w.sleep(10 * time.Minute)
	if w.stopped() {
		return
	}
	if n := X.conn.nWrites + X.conn.nWriteAfterClose; n != writes {
		w.violate("C09", "write-after-teardown", "%s: %d more write attempts on the transport after the teardown had finished", X.name, n-writes)
		return
	}
	if n := w.libStepsOf(X.name); n != lib {
		w.violate("C09", "activity-after-teardown", "%s: %d scheduling steps of its tasks during 10 idle minutes after the teardown (last %s)", X.name, n-lib, w.sim.lastLib)
		return
	}
	w.probe("crash-checked")
}

// libStepsOf counts scheduling steps executed so far by non-client tasks owned by an endpoint.
func (w *world) libStepsOf(owner string) int {
	n := 0
	for _, t := range w.sim.tasks {
		if t.owner == owner && !t.client {
			n += t.steps
		}
	}
	return n
}
