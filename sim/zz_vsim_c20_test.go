package sctp

// C20: the public API is safe for concurrent use.
//
// Simulated leg: several client tasks per endpoint execute seeded programs of API calls on shared
// Association and Stream objects (writes and reads on the same streams from several tasks, deadline
// and reliability changes, buffered-amount queries and callbacks, stream close, and - in a part of
// the runs - Shutdown, Close and Abort fired concurrently) while traffic and timers are active and
// the seeded scheduler switches tasks at every lock acquisition, wake-up and channel operation.
// Oracles: no lock cycle, every call returns, callbacks are entered with no internal lock held, no
// panic; the history of successful writes and reads of every ordered stream direction is
// linearizable as a FIFO queue (porcupine), unordered directions deliver each message at most once
// (exactly once when nothing was closed), nothing is altered.

import (
	"context"
	"errors"
	"fmt"
	"io"
	"sort"
	"time"

	"github.com/anishathalye/porcupine"
)

func init() {
	registerScenario("C20", scenarioStorm)
}

type stormStream struct {
	sid       uint16
	unordered bool
	flips     bool // the ordering of this stream is changed by concurrent SetReliabilityParams calls (no FIFO model: exactly once, intact, complete)
	st        [2]*simStream
	writes    [2][]*msgRec // by sending side
}

type linOp struct {
	enq    bool
	id     int
	call   int64
	ret    int64
	client int
}

func scenarioStorm(w *world) {
	cfg := genConfig(w, cfgOpts{wrapBias: false, maxLossPPM: 100000, blockWriteOK: true})
	tp := w.wtape
	cfg.YieldPPM = uint32(pick(tp, 50000, 200000, 500000, 900000))
	cfg.SwitchPPM = uint32(pick(tp, 100000, 300000, 600000))
	w.setup(cfg)
	w.panicProp = "C20"
	x := newXfer(w)
	w.net.faultsOn = false
	if !w.connect(120*time.Second) || w.eps[0].connErr != nil || w.eps[1].connErr != nil {
		if w.viol == nil && w.aborted == "" {
			w.violate("C04", "no-faults-handshake", "fault-free handshake failed: %v / %v", w.eps[0].connErr, w.eps[1].connErr)
		}
		return
	}
	w.net.faultsOn = true
	nS := 1 + tp.intn(4)
	var streams []*stormStream
	for i := 0; i < nS; i++ {
		streams = append(streams, &stormStream{sid: uint16(i + 1), unordered: tp.intn(3) == 0, flips: tp.intn(4) == 0})
	}
	// both ends open every stream before the storm (one task per end)
	opened := 0
	for side := 0; side < 2; side++ {
		side := side
		ep := w.eps[side]
		w.sim.spawnClient("open."+ep.name, ep.name, func() {
			for _, ss := range streams {
				s, err := ep.assoc.OpenStream(ss.sid, PayloadTypeWebRTCBinary)
				if err != nil {
					w.violate("C20", "open-failed", "%s: OpenStream(%d): %v", ep.name, ss.sid, err)
					return
				}
				s.SetReliabilityParams(ss.unordered, ReliabilityTypeReliable, 0)
				ss.st[side] = &simStream{ep: ep, sid: ss.sid, s: s}
			}
			opened++
		})
	}
	if w.run(func() bool { return opened == 2 }, w.now()+10*time.Second) != stopCond {
		return
	}
	// AcceptStream may be called concurrently with everything else; nothing arrives on it (all streams are open)
	for _, ep := range w.eps {
		ep := ep
		w.sim.spawnClient("accept."+ep.name, ep.name, func() {
			for {
				c := w.beginCall(ep, "AcceptStream", -1)
				_, err := ep.assoc.AcceptStream()
				w.endCall(c, err)
				if err != nil {
					return
				}
			}
		})
	}
	closing := tp.intn(3) == 0 // a part of the runs ends in a storm of Close / Shutdown / Abort
	if v, ok := w.params["c20_closing"]; ok {
		closing = v != 0
	}
	maxMsg := 65536
	for _, ep := range w.eps {
		if m := int(ep.assoc.MaxMessageSize()); m < maxMsg {
			maxMsg = m
		}
	}
	rbMin := 1 << 20
	for _, c := range cfg.Side {
		if c.RecvBuf != 0 && int(c.RecvBuf) < rbMin {
			rbMin = int(c.RecvBuf)
		}
	}
	nTasks := [2]int{1 + tp.intn(5), 1 + tp.intn(5)}
	running := 0
	cbCount := 0
	totalWrites := 0
	for side := 0; side < 2; side++ {
		for k := 0; k < nTasks[side]; k++ {
			side, k := side, k
			ep := w.eps[side]
			nOps := 3 + tp.intn(14)
			if thorough() {
				nOps = 3 + tp.intn(40)
			}
			running++
			w.sim.spawnClient(fmt.Sprintf("storm.%s.%d", ep.name, k), ep.name, func() {
				defer func() { running-- }()
				buf := make([]byte, 70000)
				for i := 0; i < nOps; i++ {
					if w.tornDown || w.stopped() {
						return
					}
					ss := streams[tp.intn(len(streams))]
					st := ss.st[side]
					s := st.s
					op := tp.intn(20)
					if closing && i == nOps-1 && tp.intn(2) == 0 {
						op = 100 + tp.intn(5)
					}
					switch {
					case op < 7:
						lim := rbMin / 4 / (nTasks[0] + nTasks[1] + 1)
						sz := sizeMix(tp, 1168, maxMsg, false)
						if sz > lim {
							sz = 1 + lim/2
						}
						if totalWrites > 120 {
							continue
						}
						totalWrites++
						m := w.newMsg(st, sz, false)
						m.unordered = ss.unordered
						x.index[m.ppi] = m
						ss.writes[side] = append(ss.writes[side], m)
						w.write(st, m)
					case op < 12:
						_ = s.SetReadDeadline(time.Now().Add(time.Duration(1+tp.intn(400)) * time.Millisecond))
						r := w.read(st, buf, x.index)
						if r.err == nil && r.bad != "" {
							w.violate("C20", "altered", "%s stream %d: %s", ep.name, ss.sid, r.bad)
							return
						}
					case op == 12:
						c := w.beginCall(ep, "SetReliabilityParams", int(ss.sid))
						u := ss.unordered
						if ss.flips {
							u = tp.intn(2) == 0
						}
						s.SetReliabilityParams(u, ReliabilityTypeReliable, 0)
						w.endCall(c, nil)
					case op == 13:
						c := w.beginCall(ep, "BufferedAmount", int(ss.sid))
						_ = s.BufferedAmount()
						_ = ep.assoc.BufferedAmount()
						_ = s.BufferedAmountLowThreshold()
						_ = s.State()
						_ = s.StreamIdentifier()
						w.endCall(c, nil)
					case op == 14:
						c := w.beginCall(ep, "OnBufferedAmountLow", int(ss.sid))
						s.SetBufferedAmountLowThreshold(uint64(tp.intn(3000)))
						s.OnBufferedAmountLow(func() {
							if cur := w.sim.cur; cur != nil && cur.nlocks != 0 {
								w.violate("C20", "callback-with-lock-held", "%s stream %d: OnBufferedAmountLow callback invoked while the calling goroutine holds %d internal lock(s)", ep.name, ss.sid, cur.nlocks)
							}
							cbCount++
							w.probe("storm-callback")
							_ = s.BufferedAmount()
							_ = ep.assoc.BufferedAmount()
							s.SetBufferedAmountLowThreshold(uint64(cbCount % 2000))
						})
						w.endCall(c, nil)
					case op == 15:
						c := w.beginCall(ep, "getters", -1)
						a := ep.assoc
						_, _, _, _, _, _ = a.BytesSent(), a.BytesReceived(), a.MTU(), a.CWND(), a.RWND(), a.SRTT()
						_, _ = a.Metadata()
						_ = a.MaxMessageSize()
						w.endCall(c, nil)
					case op == 16:
						c := w.beginCall(ep, "SetDeadline", int(ss.sid))
						_ = s.SetWriteDeadline(time.Now().Add(time.Duration(1+tp.intn(2000)) * time.Millisecond))
						// (read deadlines stay finite: a cleared deadline would let another task's read wait for ever)
						_ = s.SetReadDeadline(time.Now().Add(time.Duration(1+tp.intn(400)) * time.Millisecond))
						s.SetDefaultPayloadType(PayloadTypeWebRTCBinary)
						w.endCall(c, nil)
					case op == 17:
						c := w.beginCall(ep, "ActiveHeartbeat", -1)
						ep.assoc.ActiveHeartbeat()
						w.endCall(c, nil)
					case op == 18:
						c := w.beginCall(ep, "SetMaxMessageSize", -1)
						ep.assoc.SetMaxMessageSize(ep.assoc.MaxMessageSize())
						w.endCall(c, nil)
					case op == 19:
						h := vsimBlocking("client.sleep")
						time.Sleep(time.Duration(tp.intn(100)) * time.Millisecond)
						vsimWoke(h)
					case op == 100 && closing:
						c := w.beginCall(ep, "Stream.Close", int(ss.sid))
						err := s.Close()
						w.endCall(c, err)
						w.probe("storm-stream-close")
					case op == 101 && closing:
						c := w.beginCall(ep, "Close", -1)
						err := ep.assoc.Close()
						w.endCall(c, err)
						w.probe("storm-close")
					case op == 102 && closing:
						c := w.beginCall(ep, "Abort", -1)
						ep.assoc.Abort("storm")
						w.endCall(c, nil)
						w.probe("storm-abort")
					case op >= 103 && closing:
						c := w.beginCall(ep, "Shutdown", -1)
						ctx, cancel := context.WithTimeout(context.Background(), time.Duration(1+tp.intn(3000))*time.Millisecond)
						err := ep.assoc.Shutdown(ctx)
						cancel()
						w.endCall(c, err)
						w.probe("storm-shutdown")
					}
				}
			})
		}
	}
	rmax := rtoMaxOf(cfg.Side[0])
	if r := rtoMaxOf(cfg.Side[1]); r > rmax {
		rmax = r
	}
	w.run(func() bool { return running == 0 }, w.now()+4*rmax+60*time.Second)
	if w.stopped() {
		return
	}
	if running != 0 && closing {
		// one end was closed or aborted: calls blocked on the other end (a blocking write towards a dead
		// peer, a read) legitimately wait until their own association is closed, which happens below
		w.probe("storm-calls-wait-for-final-close")
	} else if running != 0 {
		w.violate("C20", "call-never-returned", "%d storm tasks are still inside an API call %v after the storm began: %s\n%s", running, 4*rmax+60*time.Second, pendingCalls(w), w.sim.describeBlocked())
		return
	}
	w.net.heal()
	if !closing {
		// drain: one reader per stream end reads whatever is left, then everything must have arrived exactly once
		left := 0
		for _, ss := range streams {
			for side := 0; side < 2; side++ {
				ss, side := ss, side
				st := ss.st[side]
				left++
				w.sim.spawnClient(fmt.Sprintf("drain.%s.%d", st.ep.name, ss.sid), st.ep.name, func() {
					defer func() { left-- }()
					buf := make([]byte, 70000)
					for {
						all := true
						for _, m := range ss.writes[1-side] {
							if m.err == nil && m.delivered == 0 {
								all = false
							}
						}
						if all || w.tornDown || w.stopped() {
							return
						}
						_ = st.s.SetReadDeadline(time.Now().Add(500 * time.Millisecond))
						r := w.read(st, buf, x.index)
						if r.err != nil && !errors.Is(r.err, ErrReadDeadlineExceeded) {
							return
						}
					}
				})
			}
		}
		bound := 8*rmax + 120*time.Second
		if w.run(func() bool { return left == 0 }, w.now()+bound) == stopTime {
			w.violate("C20", "lost-under-concurrency", "not every accepted message was delivered %v after the storm: %s", bound, undelivered(streams))
			return
		}
		if w.stopped() {
			return
		}
	}
	// the end: both associations are closed (again, possibly), every call must have returned
	closed := 0
	for _, ep := range w.eps {
		ep := ep
		w.sim.spawnClient("final-close."+ep.name, ep.name, func() {
			c := w.beginCall(ep, "Close", -1)
			err := ep.assoc.Close()
			w.endCall(c, err)
			closed++
		})
	}
	w.run(func() bool { return closed == 2 }, w.now()+30*time.Second)
	if w.stopped() {
		return
	}
	w.run(func() bool { return running == 0 }, w.now()+5*time.Second)
	if w.stopped() {
		return
	}
	w.run(nil, w.now()+time.Second)
	if p := pendingCalls(w); p != "" || running != 0 {
		w.violate("C20", "call-never-returned", "after both associations were closed these calls have not returned: %s\n%s", p, w.sim.describeBlocked())
		return
	}
	for _, ep := range w.eps {
		if left := w.censusOf(ep.name); len(left) > 0 {
			w.violate("C20", "goroutines-left-after-close", "%s: after Close these library goroutines are still alive: %v", ep.name, left)
			return
		}
	}
	// delivery guarantees over the recorded history
	var maxSeq int64 = w.evSeq + 10
	for _, ss := range streams {
		for from := 0; from < 2; from++ {
			var ops []linOp
			wrote := map[int]*msgRec{}
			for _, m := range ss.writes[from] {
				wrote[m.id] = m
				if m.delivered > 1 {
					w.violate("C20", "duplicated-under-concurrency", "stream %d %s->%s: message %d was delivered %d times", ss.sid, w.eps[from].name, w.eps[1-from].name, m.id, m.delivered)
					return
				}
				if m.done && m.err != nil && m.delivered > 0 {
					w.violate("C20", "failed-write-delivered", "stream %d: the write of message %d failed (%v) but the message was delivered", ss.sid, m.id, m.err)
					return
				}
				if !closing && m.err == nil && m.delivered != 1 {
					w.violate("C20", "lost-under-concurrency", "stream %d: message %d was delivered %d times", ss.sid, m.id, m.delivered)
					return
				}
				if m.delivered == 1 || (m.done && m.err == nil) {
					ret := m.returnSeq
					if !m.done {
						ret = maxSeq
					}
					ops = append(ops, linOp{enq: true, id: m.id, call: m.invokeSeq, ret: ret, client: 1000 + m.id})
				}
			}
			for _, r := range ss.st[1-from].reads {
				if r.err != nil || r.msg == nil {
					continue
				}
				if wrote[r.msg.id] == nil {
					w.violate("C20", "altered", "stream %d: a read at %s returned message %d which was not written on this stream direction", ss.sid, w.eps[1-from].name, r.msg.id)
					return
				}
				if r.invokeSeq != 0 && r.returnSeq < wrote[r.msg.id].invokeSeq {
					w.violate("C20", "read-before-write", "stream %d: message %d was returned by a read before its write was invoked", ss.sid, r.msg.id)
					return
				}
				ops = append(ops, linOp{enq: false, id: r.msg.id, call: r.invokeSeq, ret: r.returnSeq, client: int(r.invokeSeq)})
			}
			if !ss.unordered && !ss.flips && len(ops) > 0 {
				w.lin = append(w.lin, linHistory{name: fmt.Sprintf("stream %d %s->%s", ss.sid, w.eps[from].name, w.eps[1-from].name), ops: ops})
			}
		}
	}
	w.probe("storm-completed")
}

func undelivered(streams []*stormStream) string {
	out := ""
	for _, ss := range streams {
		for from := 0; from < 2; from++ {
			for _, m := range ss.writes[from] {
				if m.err == nil && m.delivered == 0 {
					out += fmt.Sprintf("[stream %d msg %d size %d] ", ss.sid, m.id, m.size)
				}
			}
		}
	}
	return out
}

func pendingCalls(w *world) string {
	out := ""
	for _, c := range w.calls {
		if !c.done {
			out += fmt.Sprintf("[%s %s sid=%d invoked at %v] ", c.ep.name, c.op, c.sid, c.invokeAt)
		}
	}
	return out
}

// ---- linearizability of an ordered stream direction as a FIFO queue

type linHistory struct {
	name string
	ops  []linOp
}

type linInput struct {
	enq bool
	id  int
}

var fifoModel = porcupine.Model{
	Init: func() interface{} { return []int(nil) },
	Step: func(state, input, output interface{}) (bool, interface{}) {
		q := state.([]int)
		in := input.(linInput)
		if in.enq {
			nq := make([]int, len(q)+1)
			copy(nq, q)
			nq[len(q)] = in.id
			return true, nq
		}
		if len(q) == 0 || q[0] != in.id {
			return false, q
		}
		return true, q[1:]
	},
	Equal: func(a, b interface{}) bool {
		x, y := a.([]int), b.([]int)
		if len(x) != len(y) {
			return false
		}
		for i := range x {
			if x[i] != y[i] {
				return false
			}
		}
		return true
	},
	DescribeOperation: func(input, output interface{}) string {
		in := input.(linInput)
		if in.enq {
			return fmt.Sprintf("write(%d)", in.id)
		}
		return fmt.Sprintf("read->%d", in.id)
	},
}

// checkLinearizable runs outside the bubble (real clock for the checker's timeout).
func checkLinearizable(h linHistory) (verdict string, detail string) {
	var ops []porcupine.Operation
	for i, o := range h.ops {
		ops = append(ops, porcupine.Operation{ClientId: i, Input: linInput{o.enq, o.id}, Call: o.call, Output: o.id, Return: o.ret})
	}
	switch porcupine.CheckOperationsTimeout(fifoModel, ops, 20*time.Second) {
	case porcupine.Ok:
		return "ok", ""
	case porcupine.Unknown:
		return "unknown", ""
	}
	sort.Slice(h.ops, func(i, j int) bool { return h.ops[i].call < h.ops[j].call })
	d := ""
	for _, o := range h.ops {
		k := "read->"
		if o.enq {
			k = "write "
		}
		d += fmt.Sprintf("%s%d[%d,%d] ", k, o.id, o.call, o.ret)
		if len(d) > 1500 {
			d += "..."
			break
		}
	}
	return "illegal", d
}

var _ = io.EOF

// dDeadlineTwoReaders: two tasks are blocked in ReadSCTP on the same stream when its read deadline
// expires; both reads must return (witness of F12: the expiry woke one waiter only).
func dDeadlineTwoReaders(w *world) {
	_, _, ok := directedStart(w, directedConfig(w, false))
	if !ok {
		return
	}
	ep := w.eps[1]
	var s *Stream
	opened := false
	w.sim.spawnClient("open.B", "B", func() {
		s, _ = ep.assoc.OpenStream(1, PayloadTypeWebRTCBinary)
		_ = s.SetReadDeadline(time.Now().Add(300 * time.Millisecond))
		opened = true
	})
	w.run(func() bool { return opened }, w.now()+time.Second)
	if s == nil {
		return
	}
	st := &simStream{ep: ep, sid: 1, s: s}
	returned := 0
	for k := 0; k < 2; k++ {
		w.sim.spawnClient(fmt.Sprintf("reader.B.%d", k), "B", func() {
			r := w.read(st, make([]byte, 100), map[uint32]*msgRec{})
			if !errors.Is(r.err, ErrReadDeadlineExceeded) {
				w.violate("C20", "unexpected-read-result", "read returned %v", r.err)
			}
			returned++
		})
	}
	w.run(func() bool { return returned == 2 }, w.now()+10*time.Second)
	if w.stopped() {
		return
	}
	if returned != 2 {
		w.violate("C20", "call-never-returned", "two reads were blocked on stream 1 when its read deadline (300 ms) expired; %d of them returned within 10 s: %s", returned, pendingCalls(w))
	}
}

func init() { registerScenario("D_deadline_two_readers", dDeadlineTwoReaders) }

// dWriteDeadlineMoved: blocking-write mode; a write waits at the gate (earlier data is still queued)
// with a write deadline that has expired, while another task moves the deadline into the future.
// The write must either fail or be delivered. Seeded schedules decide who gets there first (witness of
// F13: Done() of the old deadline fired, Err() of the new one was nil, and the write returned success
// without queueing anything).
func dWriteDeadlineMoved(w *world) {
	cfg := directedConfig(w, false)
	cfg.Side[0].BlockWrite = true
	cfg.YieldPPM, cfg.SwitchPPM = 300000, 300000
	x, _, ok := directedStart(w, cfg)
	if !ok {
		return
	}
	A, B := w.eps[0], w.eps[1]
	var sa, sb *simStream
	opened := 0
	for _, ep := range w.eps {
		ep := ep
		w.sim.spawnClient("open."+ep.name, ep.name, func() {
			s, err := ep.assoc.OpenStream(1, PayloadTypeWebRTCBinary)
			if err != nil {
				return
			}
			st := &simStream{ep: ep, sid: 1, s: s}
			if ep == A {
				sa = st
			} else {
				sb = st
			}
			opened++
		})
	}
	if w.run(func() bool { return opened == 2 }, w.now()+time.Second) != stopCond {
		return
	}
	// the peer does not answer for a while: what A queues stays queued
	w.net.partitioned = [2]bool{true, true}
	var msgs []*msgRec
	done := 0
	// variant: a third task changes the stream's ordering while the write waits at the gate; the failed write must
	// be undone with the ordering it was prepared with, or the messages written afterwards are lost
	flip := w.wtape.intn(2) == 1
	startUnordered := flip && w.wtape.intn(2) == 0
	flipAfter := time.Duration(pick(w.wtape, 100, 100, 100, 99, 101, 95+w.wtape.intn(10))) * time.Millisecond
	nTasks := 2
	if flip {
		nTasks = 3
		w.sim.spawnClient("flipper.A", "A", func() {
			defer func() { done++ }()
			h := vsimBlocking("client.sleep")
			time.Sleep(flipAfter)
			vsimWoke(h)
			if sa != nil {
				sa.s.SetReliabilityParams(!startUnordered, ReliabilityTypeReliable, 0)
			}
		})
	}
	w.sim.spawnClient("writer.A", "A", func() {
		defer func() { done++ }()
		if flip {
			sa.s.SetReliabilityParams(startUnordered, ReliabilityTypeReliable, 0)
		}
		m1 := w.newMsg(sa, 20000, false) // more than the initial congestion window: the rest stays pending
		x.index[m1.ppi] = m1
		msgs = append(msgs, m1)
		w.write(sa, m1)
		_ = sa.s.SetWriteDeadline(time.Now().Add(50 * time.Millisecond))
		h := vsimBlocking("client.sleep")
		time.Sleep(100 * time.Millisecond)
		vsimWoke(h)
		m2 := w.newMsg(sa, 10, false)
		x.index[m2.ppi] = m2
		msgs = append(msgs, m2)
		w.write(sa, m2)
		if flip {
			// whatever became of m2, what is written next (after the flip, with time to spare) must arrive
			h := vsimBlocking("client.sleep")
			time.Sleep(50 * time.Millisecond)
			vsimWoke(h)
			_ = sa.s.SetWriteDeadline(time.Now().Add(150 * time.Second))
			for i := 0; i < 2; i++ {
				m := w.newMsg(sa, 10+i, false)
				x.index[m.ppi] = m
				msgs = append(msgs, m)
				w.write(sa, m)
			}
		}
	})
	w.sim.spawnClient("mover.A", "A", func() {
		defer func() { done++ }()
		h := vsimBlocking("client.sleep")
		time.Sleep(100 * time.Millisecond)
		vsimWoke(h)
		for sa == nil {
			return
		}
		_ = sa.s.SetWriteDeadline(time.Now().Add(30 * time.Second))
	})
	w.run(nil, w.now()+2*time.Second)
	w.net.heal()
	got := 0
	w.sim.spawnClient("reader.B", "B", func() {
		buf := make([]byte, 70000)
		for {
			_ = sb.s.SetReadDeadline(time.Now().Add(time.Second))
			r := w.read(sb, buf, x.index)
			if r.err == nil {
				got++
			} else if !errors.Is(r.err, ErrReadDeadlineExceeded) {
				return
			}
		}
	})
	w.run(func() bool {
		if done < nTasks {
			return false
		}
		for _, m := range msgs {
			if m.done && m.err == nil && m.delivered == 0 {
				return false
			}
		}
		return true
	}, w.now()+200*time.Second)
	if w.stopped() {
		return
	}
	for _, m := range msgs {
		if m.done && m.err == nil && m.delivered != 1 {
			w.violate("C20", "lost-under-concurrency", "write of message %d (%d bytes) returned n=%d err=nil while other goroutines changed the write deadline (and, in the flip variant, the ordering) of the stream, but the message was delivered %d times", m.id, m.size, m.n, m.delivered)
			return
		}
		if m.done && m.err != nil && m.delivered != 0 {
			w.violate("C20", "failed-write-delivered", "write of message %d failed (%v) but the message was delivered", m.id, m.err)
			return
		}
	}
	_ = B
}

func init() { registerScenario("D_write_deadline_moved", dWriteDeadlineMoved) }

// dGateToken (two passes of one seed): blocking-write mode, an earlier write keeps the queue busy, then two
// writers on two streams park at the write gate - the first with a write deadline, the second without. Pass 1 has
// no deadline and records when the first writer got through; pass 2 sets the first writer's deadline to exactly
// that instant, so that the deadline and the gate's wake-up fall together and the seeded scheduler decides the
// order. Whatever happens to the first write (it may succeed or fail with the deadline error), the second writer
// must get through and its message must arrive.
func dGateToken(w *world) {
	cfg := directedConfig(w, false)
	cfg.Side[0].BlockWrite = true
	cfg.YieldPPM, cfg.SwitchPPM = 400000, 400000
	x, _, ok := directedStart(w, cfg)
	if !ok {
		return
	}
	tp := w.wtape
	var sa [2]*simStream
	var sb [2]*simStream
	opened := 0
	for _, ep := range w.eps {
		ep := ep
		w.sim.spawnClient("open."+ep.name, ep.name, func() {
			for i := 0; i < 2; i++ {
				s, err := ep.assoc.OpenStream(uint16(i+1), PayloadTypeWebRTCBinary)
				if err != nil {
					return
				}
				st := &simStream{ep: ep, sid: uint16(i + 1), s: s}
				if ep == w.eps[0] {
					sa[i] = st
				} else {
					sb[i] = st
				}
			}
			opened++
		})
	}
	if w.run(func() bool { return opened == 2 }, w.now()+time.Second) != stopCond {
		return
	}
	// readers at B
	for i := 0; i < 2; i++ {
		i := i
		w.sim.spawnClient(fmt.Sprintf("reader.B.%d", i+1), "B", func() {
			buf := make([]byte, 70000)
			for {
				_ = sb[i].s.SetReadDeadline(time.Now().Add(time.Second))
				r := w.read(sb[i], buf, x.index)
				if r.err != nil && !errors.Is(r.err, ErrReadDeadlineExceeded) {
					return
				}
			}
		})
	}
	var m0, m1, m2 *msgRec
	t0 := w.now()
	done := 0
	deadlineUs, second := w.params["gate_deadline_us"]
	w.sim.spawnClient("writer0.A", "A", func() {
		m0 = w.newMsg(sa[0], 12000+tp.intn(8000), false) // more than the initial window: the tail stays pending for a round trip
		x.index[m0.ppi] = m0
		w.write(sa[0], m0)
		done++
	})
	w.sim.spawnClient("writer1.A", "A", func() {
		h := vsimBlocking("client.sleep")
		time.Sleep(time.Millisecond)
		vsimWoke(h)
		if second {
			_ = sa[0].s.SetWriteDeadline(w.t0.Add(t0 + time.Duration(deadlineUs)*time.Microsecond))
		}
		m1 = w.newMsg(sa[0], 10, false)
		x.index[m1.ppi] = m1
		w.write(sa[0], m1)
		if w.extra == nil {
			w.extra = map[string]any{}
		}
		w.extra["gate_first_returned_us"] = int((w.now() - t0) / time.Microsecond)
		done++
	})
	w.sim.spawnClient("writer2.A", "A", func() {
		h := vsimBlocking("client.sleep")
		time.Sleep(2 * time.Millisecond)
		vsimWoke(h)
		m2 = w.newMsg(sa[1], 10, false)
		x.index[m2.ppi] = m2
		w.write(sa[1], m2)
		done++
	})
	w.run(func() bool {
		return done == 3 && m2 != nil && m2.delivered == 1 && (m1 == nil || m1.err != nil || m1.delivered == 1)
	}, w.now()+120*time.Second)
	if w.stopped() || !second {
		return
	}
	if done != 3 {
		w.violate("C20", "call-never-returned", "blocking-write mode: a write with a deadline and a write without one waited at the write gate; 120 s after the queue drained these calls have not returned: %s", pendingCalls(w))
		return
	}
	if m2.err != nil || m2.delivered != 1 {
		w.violate("C20", "lost-under-concurrency", "the write without a deadline returned n=%d err=%v and its message was delivered %d times", m2.n, m2.err, m2.delivered)
		return
	}
	if m1.err == nil && m1.delivered != 1 {
		w.violate("C20", "lost-under-concurrency", "the write with the deadline returned success but its message was delivered %d times", m1.delivered)
		return
	}
	if m1.err != nil && m1.delivered != 0 {
		w.violate("C20", "failed-write-delivered", "the write with the deadline failed (%v) but its message was delivered", m1.err)
	}
	if m1.err != nil {
		w.probe("gate-deadline-won")
	} else {
		w.probe("gate-token-won")
	}
}

func init() {
	registerScenario("D_gate_token", dGateToken)
	registerTwoPass("D_gate_token", func(seed uint64, r1 *runResult) map[string]int {
		us, _ := r1.Extra["gate_first_returned_us"].(int)
		h := vsimNewTape("gate", seed)
		// at, just before or just after the instant at which the first waiting writer got through
		return map[string]int{"gate_deadline_us": us + pick(h, 0, 0, 0, -1, 1, -100, 100)}
	})
}
