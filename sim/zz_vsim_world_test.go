package sctp

// World: two real associations on the simulated network, the driver loop, the
// API recorder and the plumbing shared by all property scenarios.

import (
	"os"
	"errors"
	"fmt"
	"io"
	"sort"
	"strings"
	"sync"
	"testing"
	"testing/synctest"
	"time"

	"github.com/pion/logging"
)

// ---------------------------------------------------------------- configuration

type sideCfg struct {
	Role         string // "client" | "server"
	MTU          uint32
	RecvBuf      uint32
	MaxMsg       uint32
	Interleaving bool
	ZeroCRC      bool
	BlockWrite   bool
	RTOMax       float64
	MinCwnd      uint32
	FastRtxWnd   uint32
	CwndCAStep   uint32
	Scheduler    string // "wfq" | "rr"
	Weights      map[uint16]uint16
	MaxReasm     uint32
	ForceTSN     bool
	InitialTSN   uint32
}

type runConfig struct {
	Side      [2]sideCfg
	Fault     [2]faultCfgJSON
	YieldPPM  uint32
	SwitchPPM uint32
	StepBudget int
	SNAP      bool
}

type faultCfgJSON struct {
	DropPPM, DupPPM, ReorderPPM, CorruptPPM, ZeroCRCPPM uint32
	HoldMaxMs, LatencyUs, JitterUs                         int
	AlignPPM                                               uint32 `json:",omitempty"` // delay a packet so that it arrives when a timer expires
}

func (f faultCfgJSON) toCfg() faultCfg {
	return faultCfg{
		dropPPM: f.DropPPM, dupPPM: f.DupPPM, reorderPPM: f.ReorderPPM, corruptPPM: f.CorruptPPM, zeroCRCPPM: f.ZeroCRCPPM,
		alignPPM: f.AlignPPM,
		holdMax: time.Duration(f.HoldMaxMs) * time.Millisecond,
		latency: time.Duration(f.LatencyUs) * time.Microsecond,
		jitter:  time.Duration(f.JitterUs) * time.Microsecond,
	}
}

// ---------------------------------------------------------------- violations

type violation struct {
	Prop  string `json:"prop"`
	Class string `json:"class"`
	Msg   string `json:"msg"`
}

// ---------------------------------------------------------------- logging seam

type logLine struct {
	at    time.Duration
	level string
	msg   string
}

type simLoggerFactory struct{ w *world }

func (f *simLoggerFactory) NewLogger(scope string) logging.LeveledLogger {
	return &simLogger{w: f.w}
}

type simLogger struct{ w *world }

func (l *simLogger) rec(level, msg string) {
	w := l.w
	vsimHLock(&w.logMu)
	w.logs = append(w.logs, logLine{at: w.now(), level: level, msg: msg})
	vsimHUnlock(&w.logMu)
	if w.verbose != nil {
		w.verbose(fmt.Sprintf("LOG %s %s", level, msg))
	}
}
func (l *simLogger) Trace(msg string)            {}
func (l *simLogger) Tracef(f string, a ...any)   {}
func (l *simLogger) Debug(msg string)            { if l.w.debugLog { l.rec("debug", msg) } }
func (l *simLogger) Debugf(f string, a ...any)   { if l.w.debugLog { l.rec("debug", fmt.Sprintf(f, a...)) } }
func (l *simLogger) Info(msg string)             { l.rec("info", msg) }
func (l *simLogger) Infof(f string, a ...any)    { l.rec("info", fmt.Sprintf(f, a...)) }
func (l *simLogger) Warn(msg string)             { l.rec("warn", msg) }
func (l *simLogger) Warnf(f string, a ...any)    { l.rec("warn", fmt.Sprintf(f, a...)) }
func (l *simLogger) Error(msg string)            { l.rec("error", msg) }
func (l *simLogger) Errorf(f string, a ...any)   { l.rec("error", fmt.Sprintf(f, a...)) }

// ---------------------------------------------------------------- seeded randomness seam

type simRand struct {
	w    *world
	tape *vsimTape
}

func (r *simRand) Intn(n int) int { return r.tape.intn(n) }
func (r *simRand) Uint32() uint32 {
	w := r.w
	if s := w.sim; s != nil && s.cur != nil {
		for _, ep := range w.eps {
			if ep != nil && ep.cfg.ForceTSN && !ep.tsnForced && s.cur.owner == ep.name {
				ep.tsnForced = true
				return ep.cfg.InitialTSN
			}
		}
	}
	return uint32(r.tape.next())
}
func (r *simRand) Uint64() uint64 { return r.tape.next() }
func (r *simRand) GenerateString(n int, runes string) string {
	b := make([]byte, n)
	for i := range b {
		b[i] = runes[r.Intn(len(runes))]
	}
	return string(b)
}

// ---------------------------------------------------------------- world

type monitor interface {
	onEmit(p *wirePacket)
	onDeliver(to int, p *wirePacket, data []byte)
	onStep()
}

type endpoint struct {
	w         *world
	side      int
	name      string
	conn      *simConn
	assoc     *Association
	cfg       sideCfg
	tsnForced bool
	connErr   error
	connDone  bool
	streams   map[uint16]*simStream
	accepted  []*Stream
	acceptEOF bool
}

type world struct {
	dlvSteps []int // scheduling-step numbers at which a packet was handed to an endpoint (C09: crash points right behind a delivery)
	t       *testing.T
	seed    uint64
	prop    string
	sim     *vsimSim
	net     *simNet
	eps     [2]*endpoint
	t0      time.Time
	evSeq   int64
	cfg     *runConfig
	wtape   *vsimTape // workload decisions
	ctape   *vsimTape // configuration decisions
	atape   *vsimTape // adversary decisions
	pkts    [2][]*wirePacket
	allPkts []*wirePacket
	logMu   sync.Mutex
	logs    []logLine
	viol    *violation
	notes   []string
	probes  map[string]int
	mons    []monitor
	verbose func(string)
	debugLog bool
	aborted  string // harness-level abort reason
	maxVirt  time.Duration
	hist     []string // human-readable API history (only when verbose)
	nAPI     int
	msgSeq   int
	writesAfterClose int
	stepCheck func() // optional extra per-step invariant
	leak      string
	tornDown  bool
	params    map[string]int
	extra     map[string]any
	wm        *wireMon
	knownHits map[string]int
	knownStop bool
	calls     []*apiCall
	onEmitHook func(p *wirePacket)
	obsHash   vsimHash
	obsLog    []string
	keepObs   bool
	canonEmit bool // twin comparison over canonicalised packets (C16)
	deadlockProp string // property a lock cycle is reported under (default C20)
	panicProp    string // property a panic is reported under (default C03)
	lin          []linHistory // histories to be checked for linearizability after the bubble
	maxLoop   int64 // largest number of loop iterations seen in one scheduling step
}

// loopSoftLimit: more iterations than this in one scheduling step are reported (the largest
// legitimate steps - sorting or scanning a full receive window - stay far below).
const loopSoftLimit = 4_000_000

// observe records one externally observable event (API call result, emitted packet) for twin comparisons.
func (w *world) observe(s string) {
	w.obsHash.addString(s)
	if w.keepObs && len(w.obsLog) < 20000 {
		w.obsLog = append(w.obsLog, s)
	}
}

// knownClasses: violation classes recorded in known_findings.json as open
// findings (passed with -vsim.known); they are counted, not reported, so that
// one recorded defect does not mask the rest of a run.
var knownClasses = map[string]bool{}

func (w *world) onReadCall(c *simConn) {
	if w.wm != nil && c.side < 2 {
		w.wm.onReadCall(c.side)
	}
}

// installMonitor attaches the wire monitor with every oracle family enabled.
func (w *world) installMonitor(x *xfer) *wireMon {
	m := newWireMon(w, x)
	for _, p := range []string{"C04.vtag", "C05", "C05.complete", "C10", "C11", "C12", "C13", "C06", "C07", "C15", "C17", "C19"} {
		m.props[p] = true
	}
	w.wm = m
	w.mons = append(w.mons, m)
	return m
}

func (w *world) now() time.Duration { return time.Since(w.t0) }

func (w *world) nextSeq() int64 { w.evSeq++; return w.evSeq }

func (w *world) violate(prop, class, f string, a ...any) {
	if knownClasses[prop+":"+class] || knownClasses[prop+":"+class+"!"] {
		// a recorded known finding: count it and keep checking everything else
		if w.knownHits == nil {
			w.knownHits = map[string]int{}
		}
		w.knownHits[prop+":"+class]++
		if w.verbose != nil && w.knownHits[prop+":"+class] == 1 {
			w.verbose("KNOWN " + prop + " " + class + ": " + fmt.Sprintf(f, a...))
		}
		if knownClasses[prop+":"+class+"!"] {
			// the rest of this run would only show consequences of the recorded defect
			w.knownStop = true
		}
		return
	}
	if w.knownStop {
		// the run was ended by a recorded finding: what client tasks still observe while it is torn down is a consequence
		return
	}
	if w.viol == nil {
		w.viol = &violation{Prop: prop, Class: class, Msg: fmt.Sprintf(f, a...)}
		if w.verbose != nil {
			w.verbose("VIOLATION " + prop + " " + class + ": " + w.viol.Msg)
		}
	}
}

func (w *world) note(f string, a ...any) {
	if len(w.notes) < 50 {
		w.notes = append(w.notes, fmt.Sprintf(f, a...))
	}
}

func (w *world) probe(name string) { w.probes[name]++ }

func (w *world) logf(f string, a ...any) {
	if w.verbose != nil {
		w.verbose(fmt.Sprintf(f, a...))
	}
}

// ---- simConn callbacks (token holder)

func (w *world) onSend(c *simConn, raw []byte) {
	if c.side > 1 {
		return
	}
	p, _ := wDecodePacket(raw)
	p.from = c.side
	p.idx = len(w.pkts[c.side])
	p.seq = w.nextSeq()
	p.at = w.now()
	w.pkts[c.side] = append(w.pkts[c.side], p)
	w.allPkts = append(w.allPkts, p)
	w.sim.trace.addBytes(raw)
	w.sim.trace.addInt(int64(p.at))
	if w.keepObs && !w.canonEmit {
		w.observe(fmt.Sprintf("emit %s t=%v %x", []string{"A", "B"}[c.side], p.at, raw))
	}
	for _, m := range w.mons {
		m.onEmit(p)
	}
	if w.onEmitHook != nil {
		w.onEmitHook(p)
	}
	if w.keepObs && w.canonEmit && w.wm != nil {
		w.observe(fmt.Sprintf("emit %s t=%v %s", []string{"A", "B"}[c.side], p.at, w.canonPacket(p)))
	}
	w.net.send(c.side, w.eps[1-c.side].conn, p)
	if w.verbose != nil {
		w.verbose("EMIT " + p.summary())
	}
}

func (w *world) onDelivered(c *simConn, data []byte) {
	if c.side > 1 {
		return
	}
	p := c.lastPkt
	w.sim.trace.addString("dlv")
	w.sim.trace.addBytes(data)
	for _, m := range w.mons {
		m.onDeliver(c.side, p, data)
	}
	if w.verbose != nil {
		s := "(injected)"
		if p != nil {
			s = p.summary()
		}
		w.verbose(fmt.Sprintf("DELIVER to %s: %s", c.name, s))
	}
}

func (w *world) onWriteAfterClose(c *simConn) { w.writesAfterClose++ }
func (w *world) onConnClose(c *simConn) {
	w.logf("CONN-CLOSE %s", c.name)
}

// ---- endpoint construction

func (w *world) options(side int) []AssociationOption {
	ep := w.eps[side]
	c := ep.cfg
	opts := []AssociationOption{
		WithNetConn(ep.conn),
		WithLoggerFactory(&simLoggerFactory{w: w}),
		WithName(ep.name),
		WithEnableInterleaving(c.Interleaving),
		WithEnableZeroChecksum(c.ZeroCRC),
		WithBlockWrite(c.BlockWrite),
	}
	if c.MTU != 0 {
		opts = append(opts, WithMTU(c.MTU))
	}
	if c.RecvBuf != 0 {
		opts = append(opts, WithMaxReceiveBufferSize(c.RecvBuf))
	}
	if c.MaxMsg != 0 {
		opts = append(opts, WithMaxMessageSize(c.MaxMsg))
	}
	if c.RTOMax != 0 {
		opts = append(opts, WithRTOMax(c.RTOMax))
	}
	if c.MinCwnd != 0 {
		opts = append(opts, WithMinCwnd(c.MinCwnd))
	}
	if c.FastRtxWnd != 0 {
		opts = append(opts, WithFastRtxWnd(c.FastRtxWnd))
	}
	if c.CwndCAStep != 0 {
		opts = append(opts, WithCwndCAStep(c.CwndCAStep))
	}
	if c.MaxReasm != 0 {
		opts = append(opts, WithMaxReassemblyQueueEntries(c.MaxReasm))
	}
	var io []AssociationInterleavingOption
	if c.Scheduler == "rr" {
		io = append(io, WithInterleavingRoundRobinScheduler())
	} else if c.Scheduler == "wfq" {
		io = append(io, WithInterleavingWeightedFairQueueingScheduler())
		sids := make([]int, 0, len(c.Weights))
		for sid := range c.Weights {
			sids = append(sids, int(sid))
		}
		sort.Ints(sids)
		for _, sid := range sids {
			io = append(io, WithInterleavingWeightedFairQueueingWeight(uint16(sid), c.Weights[uint16(sid)]))
		}
	}
	if len(io) > 0 {
		opts = append(opts, WithInterleavingOptions(io...))
	}
	return opts
}

func toClientOpts(o []AssociationOption) []ClientOption {
	r := make([]ClientOption, len(o))
	for i := range o {
		r[i] = o[i]
	}
	return r
}

func toServerOpts(o []AssociationOption) []ServerOption {
	r := make([]ServerOption, len(o))
	for i := range o {
		r[i] = o[i]
	}
	return r
}

// connect starts both endpoints (client tasks calling the public constructors)
// and runs until both calls returned or the limit passes.
func (w *world) connect(limit time.Duration) bool {
	for side := 0; side < 2; side++ {
		ep := w.eps[side]
		w.sim.spawnClient("connect."+ep.name, ep.name, func() {
			var a *Association
			var err error
			call := w.beginCall(ep, "connect", -1)
			defer func() { w.endCall(call, ep.connErr) }()
			if ep.cfg.Role == "server" {
				a, err = ServerWithOptions(toServerOpts(w.options(ep.side))...)
			} else {
				a, err = ClientWithOptions(toClientOpts(w.options(ep.side))...)
			}
			ep.assoc, ep.connErr, ep.connDone = a, err, true
			w.apiEvent(ep, "connect", fmt.Sprintf("err=%v", err))
		})
	}
	return w.run(func() bool { return w.eps[0].connDone && w.eps[1].connDone }, w.now()+limit) == stopCond
}

func (w *world) apiEvent(ep *endpoint, op, detail string) {
	w.nAPI++
	seq := w.nextSeq()
	w.sim.trace.addString(op)
	w.sim.trace.addString(detail)
	if w.keepObs {
		w.observe(fmt.Sprintf("api %s %s %s t=%v", ep.name, op, detail, w.now()))
	}
	if w.verbose != nil {
		w.verbose(fmt.Sprintf("API #%d t=%v %s %s %s", seq, w.now(), ep.name, op, detail))
	}
}

// ---------------------------------------------------------------- driver loop

type stopReason int

const (
	stopCond stopReason = iota
	stopTime
	stopAbort
	stopViolation
)

func (w *world) abort(reason string) {
	if w.aborted == "" {
		w.aborted = reason
	}
}

// run drives the simulation until cond() holds (checked at quiescent points),
// the absolute virtual deadline passes, or the run is aborted.
func (w *world) run(cond func() bool, deadline time.Duration) stopReason {
	s := w.sim
	timer := time.NewTimer(time.Hour)
	timer.Stop()
	for {
		synctest.Wait()
		s.cur = nil
		vsimProgress.Add(1)
		if s.harnessErr != "" {
			w.abort("harness: " + s.harnessErr)
			return stopAbort
		}
		if s.panicked {
			pp := "C03"
			if w.panicProp != "" {
				pp = w.panicProp
			}
			w.violate(pp, "panic", "%s", s.panicMsg)
			return stopViolation
		}
		nl := vsimLoopN
		vsimLoopN = 0
		if nl > w.maxLoop {
			w.maxLoop = nl
			if nl > loopSoftLimit {
				w.violate("C03", "unbounded-step", "%d loop iterations were executed between two scheduling points (task %s): the time to process one event is not bounded by its size", nl, s.lastName())
				return stopViolation
			}
		}
		for _, m := range w.mons {
			m.onStep()
		}
		if w.stepCheck != nil {
			w.stepCheck()
		}
		if w.viol != nil {
			return stopViolation
		}
		if w.aborted != "" || w.knownStop {
			return stopAbort
		}
		if cond != nil && cond() {
			return stopCond
		}
		if w.cfg.StepBudget > 0 && s.nSteps > w.cfg.StepBudget {
			w.abort(fmt.Sprintf("step budget %d exhausted at t=%v", w.cfg.StepBudget, w.now()))
			return stopAbort
		}
		now := w.now()
		if now > w.maxVirt {
			w.maxVirt = now
		}
		en := s.enabledTasks()
		// held-back timer callbacks are passed over while anything else can run
		if len(en) > 0 {
			free := en[:0:0]
			for _, t := range en {
				// a timer that expires at the same instant as other events may be served well after them: some
				// callbacks are held back for a seeded number of steps (a fresh callback is otherwise nearly always first)
				if t.isCB && !t.holdDrawn {
					t.holdDrawn = true
					if s.holdPPM > 0 && s.sched.chance(s.holdPPM) {
						t.hold = 1 + s.sched.intn(48)
					}
				}
				if t.hold > 0 {
					t.hold--
					if t.hold > 0 {
						continue
					}
				}
				free = append(free, t)
			}
			if len(free) == 0 {
				for _, t := range en {
					t.hold = 0
				}
				free = en
			}
			en = free
		}
		_, hasNet := w.net.nextTime()
		due := false
		if hasNet {
			if at, _ := w.net.nextTime(); at <= now {
				due = true
			}
		}
		n := len(en)
		if due {
			n++
		}
		if n > 0 && s.prioMode {
			// priority schedule: highest priority among the enabled tasks (and the network, when a delivery is due)
			if s.prioChange == nil {
				k := 1 + s.sched.intn(4)
				for i := 0; i < k; i++ {
					s.prioChange = append(s.prioChange, s.sched.intn(6000))
				}
				sort.Ints(s.prioChange)
				s.netPrio = 100 + s.sched.intn(1<<16)
			}
			for _, t := range en {
				if t.prio == 0 {
					t.prio = 100 + s.sched.intn(1<<16)
				}
			}
			pick := func() *vsimTask {
				var best *vsimTask
				for _, t := range en {
					if best == nil || t.prio > best.prio {
						best = t
					}
				}
				if due && (best == nil || s.netPrio >= best.prio) {
					return nil
				}
				return best
			}
			best := pick()
			for s.prioChanged < len(s.prioChange) && s.nSteps >= s.prioChange[s.prioChanged] {
				// change point: whoever would run now falls below everything else
				s.prioChanged++
				if best != nil {
					best.prio = len(s.prioChange) - s.prioChanged + 1
				} else {
					s.netPrio = len(s.prioChange) - s.prioChanged + 1
				}
				best = pick()
			}
			if best != nil {
				s.releaseTask(best)
			} else {
				ev := w.net.popDue(now)
				s.trace.addString("net")
				s.last = nil
				w.deliver(ev)
			}
			continue
		}
		if n > 0 {
			// rotate so that index 0 is the task that ran last (if enabled)
			continued := false
			if s.last != nil {
				for i, t := range en {
					if t == s.last {
						en[0], en[i] = en[i], en[0]
						// keep the rest sorted
						rest := en[1:]
						sort.Slice(rest, func(a, b int) bool { return rest[a].name < rest[b].name })
						continued = true
						break
					}
				}
			}
			var k int
			if continued || w.cfg.SwitchPPM == 0 {
				k = s.sched.biased(n, w.cfg.SwitchPPM)
			} else {
				// the task that ran last cannot go on: nothing favours the candidate that happens to sort first
				k = s.sched.intn(n)
			}
			if k < len(en) {
				s.releaseTask(en[k])
			} else {
				ev := w.net.popDue(now)
				s.trace.addString("net")
				s.last = nil
				w.deliver(ev)
			}
			continue
		}
		// nothing can run now: advance virtual time. No task "continues" across the jump: which task happened to run
		// last before it must not decide who is served first at the next instant (twin runs differ in exactly that).
		s.last = nil
		if cyc := w.lockCycle(); cyc != "" {
			prop := "C20"
			if w.deadlockProp != "" {
				prop = w.deadlockProp
			}
			w.violate(prop, "deadlock", "lock cycle: %s\n%s", cyc, s.describeBlocked())
			return stopViolation
		}
		if now >= deadline {
			return stopTime
		}
		wait := deadline - now
		if hasNet {
			if at, _ := w.net.nextTime(); at-now < wait {
				wait = at - now
			}
		}
		if wait <= 0 {
			wait = time.Nanosecond
		}
		vsimRaceOff()
		select {
		case <-s.wake:
		default:
		}
		vsimRaceOn()
		timer.Reset(wait)
		vsimRaceOff()
		select {
		case <-s.wake:
			vsimRaceOn()
			timer.Stop()
		case <-timer.C:
			vsimRaceOn()
		}
	}
}

func (w *world) deliver(ev *netEvent) {
	if ev == nil {
		return
	}
	if len(w.dlvSteps) < 20000 {
		w.dlvSteps = append(w.dlvSteps, w.sim.nSteps)
	}
	st := &w.net.stats[1-ev.to.side]
	st.Delivered++
	ev.to.deliverPkt(ev.data, ev.pkt)
}

// lockCycle looks for a cycle among parked tasks waiting for locks.
func (w *world) lockCycle() string {
	s := w.sim
	waitsFor := map[*vsimTask][]*vsimTask{}
	for _, t := range s.parked {
		if t.kind != vsimParkLock && t.kind != vsimParkCond {
			continue
		}
		if t.kind == vsimParkCond && !t.signalled {
			continue
		}
		ls := s.locks[t.wantKey]
		if ls == nil {
			continue
		}
		if ls.owner != nil {
			waitsFor[t] = append(waitsFor[t], ls.owner)
		}
		if t.wantMode == vsimModeW {
			for r := range ls.readers {
				waitsFor[t] = append(waitsFor[t], r)
			}
		}
	}
	// DFS
	state := map[*vsimTask]int{}
	var path []*vsimTask
	var found string
	var dfs func(t *vsimTask) bool
	dfs = func(t *vsimTask) bool {
		state[t] = 1
		path = append(path, t)
		for _, n := range waitsFor[t] {
			if state[n] == 1 {
				var names []string
				for _, p := range path {
					names = append(names, p.name+"@"+p.site)
				}
				found = strings.Join(names, " -> ") + " -> " + n.name
				return true
			}
			if state[n] == 0 && dfs(n) {
				return true
			}
		}
		path = path[:len(path)-1]
		state[t] = 2
		return false
	}
	keys := make([]*vsimTask, 0, len(waitsFor))
	for t := range waitsFor {
		keys = append(keys, t)
	}
	sort.Slice(keys, func(i, j int) bool { return keys[i].name < keys[j].name })
	for _, t := range keys {
		if state[t] == 0 && dfs(t) {
			return found
		}
	}
	return ""
}

// settle runs until nothing is runnable and no packet is in flight, or limit.
func (w *world) quiesce(limit time.Duration) stopReason {
	return w.run(func() bool {
		return len(w.sim.enabledTasks()) == 0 && w.net.inFlight() == 0 && w.allIdle()
	}, w.now()+limit)
}

// allIdle: no parked task at all (everyone is blocked naturally or done).
func (w *world) allIdle() bool { return len(w.sim.parked) == 0 }

// sleep advances virtual time by d (while the system keeps running).
func (w *world) sleep(d time.Duration) stopReason {
	return w.run(nil, w.now()+d)
}

// ---------------------------------------------------------------- teardown

func (w *world) teardown() {
	if w.tornDown {
		return
	}
	w.tornDown = true
	w.net.heal()
	savedViol := w.viol
	for _, ep := range w.eps {
		if ep == nil {
			continue
		}
		ep := ep
		w.sim.spawnClient("teardown."+ep.name, ep.name, func() {
			if ep.assoc != nil {
				_ = ep.assoc.Close()
			} else {
				_ = ep.conn.Close()
			}
		})
	}
	// a violation or abort during teardown must not mask the run's verdict
	w.viol = nil
	w.knownStop = false
	abortedBefore := w.aborted
	w.aborted = ""
	w.stepCheck = nil
	monsSaved := w.mons
	w.mons = nil
	r := w.run(func() bool { return len(w.sim.liveTasks()) == 0 }, w.now()+30*time.Second)
	w.mons = monsSaved
	if r != stopCond {
		var names []string
		for _, t := range w.sim.liveTasks() {
			names = append(names, t.name+"@"+t.site)
		}
		w.leak = fmt.Sprintf("tasks alive after Close of both associations (%v): %s", r, strings.Join(names, ", "))
	}
	// whatever client tasks still complain about while the associations are being closed under them is a
	// consequence of the teardown, not a verdict of the run
	w.viol = savedViol
	if abortedBefore != "" {
		w.aborted = abortedBefore
	}
}

// ---------------------------------------------------------------- streams, messages, history

type msgRec struct {
	id         int
	from       int // sending side
	sid        uint16
	inc        int
	size       int
	ppi        uint32
	unordered  bool
	relType    byte
	relVal     uint32
	dcep       bool
	tail       bool
	odd        string // a call that must be rejected / have no effect (C18)
	stateAtInvoke uint32
	invokeSeq  int64
	returnSeq  int64
	invokeAt   time.Duration
	returnAt   time.Duration
	n          int
	err        error
	done       bool
	delivered  int // number of times read at the peer
	firstRead  int64
}

type readRec struct {
	to        int
	sid       uint16
	inc       int
	invokeSeq int64
	returnSeq int64
	at        time.Duration
	n         int
	ppi       uint32
	err       error
	msg       *msgRec // attributed write (nil if none)
	bad       string  // corruption description
	bufLen    int
	truncated bool // the result is exactly the first len(buf) bytes of a longer message, returned without ErrShortBuffer (C18)
}

// simStream is one direction-agnostic handle: the Stream object at one endpoint.
type simStream struct {
	ep     *endpoint
	sid    uint16
	inc    int
	s      *Stream
	writes []*msgRec // messages written here (this endpoint is the sender)
	reads  []*readRec
	eof    bool
	readErr error
	writerDone bool
	readerDone bool
	closed bool
	openSeq int64
	openAt  time.Duration
}

const ppiBase = 0x00100000

// payloadFor builds the unique self-describing payload of message id.
func payloadFor(id int, size int) []byte {
	b := make([]byte, size)
	x := uint64(id)*0x9e3779b97f4a7c15 + 0x1234567
	for i := range b {
		x ^= x << 13
		x ^= x >> 7
		x ^= x << 17
		b[i] = byte(x >> 24)
	}
	// header: id and size when they fit
	if size >= 8 {
		b[0], b[1], b[2], b[3] = byte(id>>24), byte(id>>16), byte(id>>8), byte(id)
		b[4], b[5], b[6], b[7] = byte(size>>24), byte(size>>16), byte(size>>8), byte(size)
	}
	return b
}

func (w *world) newMsg(st *simStream, size int, dcep bool) *msgRec {
	w.msgSeq++
	m := &msgRec{id: w.msgSeq, from: st.ep.side, sid: st.sid, inc: st.inc, size: size, dcep: dcep}
	m.ppi = ppiBase + uint32(m.id)
	if dcep {
		m.ppi = uint32(PayloadTypeWebRTCDCEP)
	}
	return m
}

// write performs one WriteSCTP on st (client task context) and records it.
func (w *world) write(st *simStream, m *msgRec) {
	var payload []byte
	if m.dcep {
		payload = payloadFor(m.id, m.size)
	} else {
		payload = payloadFor(m.id, m.size)
	}
	call := w.beginCall(st.ep, "write", int(st.sid))
	m.invokeSeq = call.invokeSeq
	m.invokeAt = w.now()
	st.writes = append(st.writes, m)
	n, err := st.s.WriteSCTP(payload, PayloadProtocolIdentifier(m.ppi))
	w.endCall(call, err)
	m.returnSeq = call.returnSeq
	m.returnAt = w.now()
	m.n, m.err, m.done = n, err, true
	if err == nil && m.size > 0 && st.ep.cfg.BlockWrite && w.wm != nil {
		w.wm.checkBlockingWriteLaw(st.ep.side, m)
	}
	w.apiEvent(st.ep, "write", fmt.Sprintf("sid=%d msg=%d size=%d n=%d err=%v", st.sid, m.id, m.size, n, err))
}

// read performs one ReadSCTP and attributes the result.
func (w *world) read(st *simStream, buf []byte, index map[uint32]*msgRec) *readRec {
	r := &readRec{to: st.ep.side, sid: st.sid, inc: st.inc}
	call := w.beginCall(st.ep, "read", int(st.sid))
	r.invokeSeq = call.invokeSeq
	n, ppi, err := st.s.ReadSCTP(buf)
	w.endCall(call, err)
	r.returnSeq = call.returnSeq
	r.at = w.now()
	r.n, r.ppi, r.err = n, uint32(ppi), err
	r.bufLen = len(buf)
	st.reads = append(st.reads, r)
	if err == nil {
		w.attribute(st, r, buf[:n], index)
	}
	mid := 0
	if r.msg != nil {
		mid = r.msg.id
	}
	w.apiEvent(st.ep, "read", fmt.Sprintf("sid=%d n=%d ppi=%d err=%v msg=%d %s", st.sid, n, ppi, err, mid, r.bad))
	return r
}

// attribute finds the write this read result corresponds to and verifies it.
func (w *world) attribute(st *simStream, r *readRec, data []byte, index map[uint32]*msgRec) {
	var m *msgRec
	if r.ppi == uint32(PayloadTypeWebRTCDCEP) {
		// DCEP messages carry their id in the payload header (size >= 8 by construction)
		if len(data) >= 8 {
			id := int(data[0])<<24 | int(data[1])<<16 | int(data[2])<<8 | int(data[3])
			m = index[uint32(id)|0x80000000]
		}
	} else {
		m = index[r.ppi]
	}
	if m == nil {
		r.bad = fmt.Sprintf("no write matches ppi=%d len=%d", r.ppi, len(data))
		return
	}
	r.msg = m
	if m.sid != st.sid {
		r.bad = fmt.Sprintf("message %d was written on stream %d but read on stream %d", m.id, m.sid, st.sid)
		return
	}
	want := payloadFor(m.id, m.size)
	if len(data) != len(want) {
		r.bad = fmt.Sprintf("message %d: length %d, written %d", m.id, len(data), len(want))
		if len(data) == r.bufLen && len(data) < len(want) && string(data) == string(want[:len(data)]) {
			r.truncated = true
		}
		return
	}
	for i := range want {
		if data[i] != want[i] {
			r.bad = fmt.Sprintf("message %d: byte %d differs", m.id, i)
			return
		}
	}
	m.delivered++
	if m.delivered == 1 {
		m.firstRead = r.returnSeq
	}
}

// ---------------------------------------------------------------- building a world inside a bubble

type scenario func(w *world)

type runResult struct {
	Seed      uint64            `json:"seed"`
	Prop      string            `json:"prop"`
	Violation *violation        `json:"violation,omitempty"`
	Aborted   string            `json:"aborted,omitempty"`
	Leak      string            `json:"leak,omitempty"`
	Hash      string            `json:"hash"`
	Steps     int               `json:"steps"`
	Yields    int               `json:"yields"`
	VirtualMs int64             `json:"virtual_ms"`
	Packets   [2]int            `json:"packets"`
	Net       [2]netStats       `json:"net"`
	Probes    map[string]int    `json:"probes,omitempty"`
	Notes     []string          `json:"notes,omitempty"`
	Sig       string            `json:"sig"`
	Nontrivial bool             `json:"nontrivial"`
	Config    *runConfig        `json:"config,omitempty"`
	Tapes     map[string][]uint32 `json:"tapes,omitempty"`
	Trace     []string          `json:"trace,omitempty"`
	NAPI      int               `json:"napi"`
	Known     map[string]int    `json:"known,omitempty"`
	Params    map[string]int    `json:"params,omitempty"`
	ObsHash   string            `json:"obs_hash,omitempty"`
	obs       []string
	Extra     map[string]any    `json:"extra,omitempty"`
	MaxLoop   int64             `json:"max_loop,omitempty"`
}

type runOpts struct {
	seed    uint64
	prop    string
	replay  map[string][]uint32 // fixed tapes (replay / minimisation)
	zero    map[string]map[int]bool
	verbose bool
	debugLog bool
	keepTapes bool
	keepObs   bool
	params  map[string]int // scenario parameters (sweeps, replay overrides)
}

var errBubbleLeak = errors.New("bubble leak")

// runOne executes one seeded run of a scenario in a fresh synctest bubble.
func runOne(t *testing.T, sc scenario, o runOpts) (res *runResult) {
	res = &runResult{Seed: o.seed, Prop: o.prop}
	var w *world
	var trace []string
	func() {
		defer func() {
			if r := recover(); r != nil {
				msg := fmt.Sprint(r)
				if strings.Contains(msg, "deadlock") || strings.Contains(msg, "blocked") {
					// goroutines left blocked in the bubble after the root returned
					if w != nil && w.leak == "" {
						w.leak = "synctest: " + msg
					}
					return
				}
				if w != nil {
					w.abort("driver panic: " + msg)
				} else {
					res.Aborted = "driver panic: " + msg
				}
			}
		}()
		synctest.Test(t, func(t *testing.T) {
			w = &world{t: t, seed: o.seed, prop: o.prop, probes: map[string]int{}}
			w.t0 = time.Now()
			w.debugLog = o.debugLog
			w.keepObs = o.keepObs
			if o.verbose {
				w.verbose = func(s string) { trace = append(trace, fmt.Sprintf("[%v] %s", w.now(), s)) }
			}
			s := vsimNewSim(o.seed)
			w.sim = s
			w.net = newSimNet(w, o.seed)
			w.wtape = vsimNewTape("workload", o.seed)
			w.ctape = vsimNewTape("config", o.seed)
			w.atape = vsimNewTape("adversary", o.seed)
			rtape := vsimNewTape("rand", o.seed)
			tapes := w.tapes()
			tapes["rand"] = rtape
			for name, tp := range tapes {
				if o.replay != nil {
					tp.replay = true
					tp.fixed = o.replay[name]
				}
				if o.zero != nil {
					tp.zero = o.zero[name]
				}
			}
			if o.verbose {
				s.traceLog = w.verbose
			}
			w.params = o.params
			savedRand := globalMathRandomGenerator
			globalMathRandomGenerator = &simRand{w: w, tape: rtape}
			vsim = s
			defer func() {
				vsim = nil
				globalMathRandomGenerator = savedRand
			}()
			sc(w)
			w.teardown()
			if vsimRaceBuild {
				// race builds run one seed per process and are judged from the detector's reports
				v := "none"
				if w.viol != nil {
					v = w.viol.Prop + "/" + w.viol.Class
				}
				fmt.Fprintf(os.Stderr, "VSIM-END seed=%d steps=%d violation=%s aborted=%q\n", o.seed, w.sim.nSteps, v, w.aborted)
			}
			if o.keepTapes {
				res.Tapes = map[string][]uint32{}
				for name, tp := range tapes {
					res.Tapes[name] = tp.rec
				}
			}
		})
	}()
	if w != nil && w.viol == nil && w.aborted == "" {
		for _, h := range w.lin {
			switch v, d := checkLinearizable(h); v {
			case "illegal":
				w.viol = &violation{Prop: "C20", Class: "not-linearizable", Msg: fmt.Sprintf("%s: the history of successful writes and reads is not linearizable as a FIFO queue: %s", h.name, d)}
			case "unknown":
				w.probe("linearizability-check-timed-out")
			default:
				w.probe("linearizable-history")
			}
			if w.viol != nil {
				break
			}
		}
	}
	if w != nil {
		res.Violation = w.viol
		res.Aborted = w.aborted
		res.Leak = w.leak
		res.Hash = fmt.Sprintf("%016x", uint64(w.sim.trace))
		res.Steps = w.sim.nSteps
		res.Yields = w.sim.nYields
		res.VirtualMs = int64(w.maxVirt / time.Millisecond)
		res.Packets = [2]int{len(w.pkts[0]), len(w.pkts[1])}
		res.Net = w.net.stats
		res.Probes = w.probes
		res.Notes = w.notes
		res.Config = w.cfg
		res.NAPI = w.nAPI
		res.Known = w.knownHits
		if w.keepObs {
			res.ObsHash = fmt.Sprintf("%016x", uint64(w.obsHash))
			res.obs = w.obsLog
		}
		if w.wm != nil {
			if w.extra == nil {
				w.extra = map[string]any{}
			}
			for k, v := range w.wm.counters {
				w.extra[k] = v
			}
		}
		res.Extra = w.extra
		res.MaxLoop = w.maxLoop
		res.Sig, res.Nontrivial = w.signature()
	}
	res.Trace = trace
	return res
}

func (w *world) tapes() map[string]*vsimTape {
	return map[string]*vsimTape{
		"sched": w.sim.sched, "maporder": w.sim.mapTape, "selorder": w.sim.selTape,
		"net.AB": w.net.tape[0], "net.BA": w.net.tape[1],
		"workload": w.wtape, "config": w.ctape, "adversary": w.atape,
	}
}

// signature: behaviour signature used for distinct_nontrivial (see DESIGN §7).
func (w *world) signature() (string, bool) {
	h := vsimHash(0)
	if w.cfg != nil {
		for i := 0; i < 2; i++ {
			c := w.cfg.Side[i]
			h.addString(fmt.Sprintf("%d/%d/%v/%v/%v/%s", c.MTU, c.RecvBuf, c.Interleaving, c.ZeroCRC, c.BlockWrite, c.Scheduler))
		}
	}
	faults := 0
	for i := 0; i < 2; i++ {
		st := w.net.stats[i]
		h.addString(fmt.Sprintf("%v/%v/%v/%v/%v", st.Dropped > 0, st.Duplicated > 0, st.Held > 0, st.Corrupted > 0, st.PlanFaults > 0))
		faults += st.Dropped + st.Duplicated + st.Held + st.Corrupted + st.ZeroCRC + st.PlanFaults + st.PartitionDrops
	}
	names := make([]string, 0, len(w.probes))
	for k := range w.probes {
		names = append(names, k)
	}
	sort.Strings(names)
	for _, k := range names {
		h.addString(k)
	}
	// shape of the schedule and traffic: bucketed counts
	h.addInt(int64(bucket(len(w.pkts[0]))))
	h.addInt(int64(bucket(len(w.pkts[1]))))
	h.addInt(int64(bucket(w.sim.nSteps)))
	h.addInt(int64(bucket(w.nAPI)))
	faults += w.probes["adv.injected"] + w.probes["fault.close"] + w.probes["fault.abort"] + w.probes["fault.transport"]
	nontrivial := faults > 0 && (len(w.pkts[0])+len(w.pkts[1])) > 4 && w.nAPI > 0
	return fmt.Sprintf("%016x", uint64(h)), nontrivial
}

func bucket(n int) int {
	b := 0
	for n > 0 {
		n >>= 1
		b++
	}
	return b
}

// ---------------------------------------------------------------- helpers used by scenarios

func (w *world) setup(cfg *runConfig) {
	w.cfg = cfg
	w.sim.yieldPPM = cfg.YieldPPM
	w.sim.holdPPM = cfg.SwitchPPM / 2
	w.sim.prioMode = w.params["sched_mode"] == 1
	for side := 0; side < 2; side++ {
		name := []string{"A", "B"}[side]
		ep := &endpoint{w: w, side: side, name: name, cfg: cfg.Side[side], streams: map[uint16]*simStream{}}
		ep.conn = newSimConn(w, side, name)
		w.eps[side] = ep
		w.net.cfg[side] = cfg.Fault[side].toCfg()
	}
}

func isEOF(err error) bool { return errors.Is(err, io.EOF) }

// ---------------------------------------------------------------- registry of blocking API calls (C09)

type apiCall struct {
	ep        *endpoint
	op        string
	sid       int
	invokeSeq int64
	invokeAt  time.Duration
	done      bool
	returnAt  time.Duration
	returnSeq int64
	err       error
}

func (w *world) beginCall(ep *endpoint, op string, sid int) *apiCall {
	c := &apiCall{ep: ep, op: op, sid: sid, invokeSeq: w.nextSeq(), invokeAt: w.now()}
	w.calls = append(w.calls, c)
	return c
}

func (w *world) endCall(c *apiCall, err error) {
	c.done, c.err, c.returnAt, c.returnSeq = true, err, w.now(), w.nextSeq()
}

// stopped: the run has a verdict (or hit a recorded finding that ends it) and
// the scenario should return.
func (w *world) stopped() bool { return w.viol != nil || w.aborted != "" || w.knownStop }
