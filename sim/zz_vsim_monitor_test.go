package sctp

// Wire monitor: judges every emitted / delivered packet from wire facts only
// (plus the white-box reads that individual properties list under observe_at).
// A violation is filed under the property whose statement it contradicts.

import (
	"bytes"
	"fmt"
	"sort"
	"time"
)

type tsnInfo struct {
	tsn    uint32
	sid    uint16
	ssn    uint16
	mid    uint32
	fsn    uint32
	ppi    uint32
	b, e, u bool
	idata  bool
	n      int
	times  []time.Duration
	acked  bool
	fwd    bool // covered by an emitted FORWARD-TSN
	msg    *msgRec
	order  int // order of first emission
	firstSeq int64
}

type heldPoint struct {
	step int
	sum  int
}

type ackFacts struct {
	cum   uint32
	arwnd uint32
	haveArwnd bool
	gaps  []wGap
	valid bool
}

type rxModel struct {
	cum  uint32
	set  map[uint32]bool
	init bool
}

func (m *rxModel) clone() *rxModel {
	c := &rxModel{cum: m.cum, init: m.init, set: make(map[uint32]bool, len(m.set))}
	for k := range m.set {
		c.set[k] = true
	}
	return c
}

func (m *rxModel) advance() {
	for m.set[m.cum+1] {
		delete(m.set, m.cum+1)
		m.cum++
	}
}

func (m *rxModel) data(tsn uint32, w uint32) {
	if wSNA32LTE(tsn, m.cum) || m.set[tsn] {
		return
	}
	if wSNA32GT(tsn, m.cum+w) {
		return
	}
	m.set[tsn] = true
	m.advance()
}

func (m *rxModel) forward(newCum uint32) {
	if wSNA32LTE(newCum, m.cum) {
		return
	}
	m.cum = newCum
	for t := range m.set {
		if wSNA32LTE(t, newCum) {
			delete(m.set, t)
		}
	}
	m.advance()
}

func (m *rxModel) gapBlocks() []wGap {
	if len(m.set) == 0 {
		return nil
	}
	offs := make([]int, 0, len(m.set))
	for t := range m.set {
		offs = append(offs, int(t-m.cum))
	}
	sort.Ints(offs)
	var out []wGap
	start, prev := offs[0], offs[0]
	for _, o := range offs[1:] {
		if o == prev+1 {
			prev = o
			continue
		}
		out = append(out, wGap{uint16(start), uint16(prev)})
		start, prev = o, o
	}
	out = append(out, wGap{uint16(start), uint16(prev)})
	return out
}

// normaliseSack returns the canonical (cum, gaps) describing the same set of TSNs.
func normaliseSack(cum uint32, gaps []wGap) (uint32, []wGap) {
	type iv struct{ s, e int }
	var ivs []iv
	for _, g := range gaps {
		ivs = append(ivs, iv{int(g.start), int(g.end)})
	}
	adv := 0
	var out []iv
	for _, v := range ivs {
		if v.s <= adv+1 && len(out) == 0 {
			if v.e > adv {
				adv = v.e
			}
			continue
		}
		if n := len(out); n > 0 && v.s <= out[n-1].e+1 {
			if v.e > out[n-1].e {
				out[n-1].e = v.e
			}
			continue
		}
		out = append(out, v)
	}
	var res []wGap
	for _, v := range out {
		res = append(res, wGap{uint16(v.s - adv), uint16(v.e - adv)})
	}
	return cum + uint32(adv), res
}

func gapsEqual(a, b []wGap) bool {
	if len(a) != len(b) {
		return false
	}
	for i := range a {
		if a[i] != b[i] {
			return false
		}
	}
	return true
}

type sideMon struct {
	// handshake facts from packets this side emitted (or its out-of-band token)
	haveInit   bool
	initTag    uint32
	initialTSN uint32
	initARwnd  uint32
	extIData, extIFwd, extFwd, extReconfig, fwdParam bool
	zcaPresent bool
	zcaEDMID   uint32

	sent       map[uint32]*tsnInfo
	nFirst     int
	highest    uint32
	haveHigh   bool
	outstanding int

	// acknowledgements delivered to this side (committed = processing finished)
	ack        ackFacts
	pendingAck []*wChunk // SACK / SHUTDOWN chunks of the packet being processed

	// as a receiver
	dlv     map[uint32]bool // TSNs of DATA chunks delivered here (superset: any decodable delivery)
	maxFwd  uint32
	haveFwd bool
	lastSackCum  uint32
	haveSackCum  bool
	model        *rxModel   // state after all fully processed packets
	inProgress   []*rxModel // states after each chunk prefix of the packet being processed
	ample        bool
	sawCorrupt   bool
	lastDataDlv  time.Duration
	needAckSince time.Duration // earliest delivery time of accepted DATA not yet covered by an emitted SACK (-1 = none)

	inboundReset   map[uint16]bool   // a reset request naming this stream was delivered to this endpoint
	resetPerformed map[uint32]bool   // request sequence numbers this endpoint answered with "performed"
	replayedReset  map[uint16]int64  // stream -> event seq of a delivered reset request whose number had already been performed
	replayedResetAt map[uint16]time.Duration // ... and the virtual time at which the endpoint read it from its transport
	fwdNoStream map[uint16]bool // a FORWARD-TSN named this stream when the endpoint had no such stream
	fwdUMID  map[uint16]uint32 // highest unordered MID listed by an I-FORWARD-TSN delivered here, per stream
	ackedBytes map[uint16]int // user bytes acknowledged (cumulatively or by gap block) per stream
	c19          c19State
	stepAckPkts  int       // packets carrying a SACK delivered to this side in the current step
	stepRTTCands []float64 // RTT samples (ms) of newly acknowledged chunks that were sent exactly once
	stepHB       bool      // a HEARTBEAT-ACK was delivered in the current step
	// acknowledgement packets are processed over several scheduling steps and may queue up: the samples
	// of the last few delivered SACKs stay candidates until an SRTT update uses them
	rttCands  []rttCand
	ackPktSeq int
	hbAckSeq  int
	hbAckSeen bool
	dlvTotal  int // packets handed to this endpoint's transport so far
	hbPending []hbExpect // HEARTBEATs delivered to this endpoint that it has not answered yet (C19)
	needAckNow   bool      // the pending acknowledgement must be immediate (gap / duplicate)
	needAckNowAt time.Duration
	needAckWhy   string
	heldHist []heldPoint // history of the queued-byte counter sum (value after each step in which it changed)
	snapCwnd uint32
	dlvInStep int
	snapT3   uint64
	snapFR   bool
	miss3    map[uint32]bool // outstanding TSNs with three miss indications after the previous step
	snapPktsIn uint64
	lastFwdCum uint32
	haveFwdCum bool
}

type rttCand struct {
	sample float64 // ms
	pkt    int     // sequence number of the delivered SACK packet
	tsn    uint32
}

type wireMon struct {
	w     *world
	s     [2]*sideMon
	x     *xfer
	props map[string]bool // which oracle families are active
	counters map[string]int
}

func newWireMon(w *world, x *xfer) *wireMon {
	m := &wireMon{w: w, x: x, props: map[string]bool{}, counters: map[string]int{}}
	for i := range m.s {
		// ample (completeness of SACKs may be asserted) is switched on by scenarios that size
		// their traffic so that nothing can legitimately be refused
		m.s[i] = &sideMon{sent: map[uint32]*tsnInfo{}, dlv: map[uint32]bool{}, ample: false, needAckSince: -1}
	}
	return m
}

func (m *wireMon) count(k string) { m.counters[k]++ }

func (m *wireMon) name(side int) string { return m.w.eps[side].name }

// learnInit records the handshake parameters a side declared.
func (sm *sideMon) learnInit(c *wChunk) {
	sm.haveInit = true
	sm.initTag = c.initTag
	sm.initialTSN = c.initialTSN
	sm.initARwnd = c.arwnd
	sm.extIData, sm.extIFwd, sm.extFwd, sm.extReconfig, sm.fwdParam = false, false, false, false, false
	sm.zcaPresent = false
	for _, p := range c.params {
		switch p.typ {
		case 0x8008:
			for _, t := range p.value {
				switch t {
				case wtIDATA:
					sm.extIData = true
				case wtIFORWARDTSN:
					sm.extIFwd = true
				case wtFORWARDTSN:
					sm.extFwd = true
				case wtRECONFIG:
					sm.extReconfig = true
				}
			}
		case 0xC000:
			sm.fwdParam = true
		case 0x8001:
			if len(p.value) >= 4 {
				sm.zcaPresent = true
				sm.zcaEDMID = uint32(p.value[0])<<24 | uint32(p.value[1])<<16 | uint32(p.value[2])<<8 | uint32(p.value[3])
			}
		}
	}
}

// ---------------------------------------------------------------- emission

// hbExpect: a HEARTBEAT of the real peer that reached a live endpoint intact must be echoed by a HEARTBEAT-ACK.
type hbExpect struct {
	value []byte
	at    time.Duration
}

func hbAnsweringState(st uint32) bool {
	switch st {
	case established, shutdownPending, shutdownSent, shutdownReceived, shutdownAckSent:
		return true
	}
	return false
}

func (m *wireMon) onEmit(p *wirePacket) {
	w := m.w
	X := p.from
	sm := m.s[X]
	peer := m.s[1-X]
	ep := w.eps[X]
	m.count("emitted")

	// ---- C12: well-formedness by the independent decoder
	if p.decodeErr != "" {
		w.violate("C12", "malformed-emission", "%s emitted a packet the independent decoder rejects: %s (raw %x)", m.name(X), p.decodeErr, p.raw)
		return
	}
	// ---- C13: checksum emission rule
	first := uint8(255)
	if len(p.chunks) > 0 {
		first = p.chunks[0].typ
	}
	if !p.crcOK {
		if p.checksum != 0 {
			w.violate("C13", "bad-crc-emitted", "%s emitted checksum %08x which is neither correct nor zero: %s", m.name(X), p.checksum, p.summary())
		} else {
			if first == wtINIT || first == wtCOOKIEECHO {
				w.violate("C13", "zero-crc-on-init", "%s emitted a zero checksum on a packet starting with %s", m.name(X), wtName(first))
			} else if !(peer.zcaPresent && peer.zcaEDMID == 1) {
				w.violate("C13", "zero-crc-not-negotiated", "%s emitted a zero checksum but %s never declared zero-checksum acceptance with the DTLS method: %s", m.name(X), m.name(1-X), p.summary())
			}
			m.count("zero-crc-emitted")
		}
	}
	if w.viol == nil {
		m.checkCodec(p)
	}

	// ---- C04: after the handshake every packet carries the peer's initiate tag
	if peer.haveInit && len(p.chunks) > 0 && m.props["C04.vtag"] {
		switch first {
		case wtINIT:
			if p.vtag != 0 {
				w.violate("C04", "wrong-verification-tag", "%s emitted an INIT with verification tag %08x (must be 0)", m.name(X), p.vtag)
			}
		case wtABORT, wtSHUTDOWNCOMPLETE:
			// may reflect the tag with the T bit
		default:
			if p.vtag != peer.initTag {
				w.violate("C04", "wrong-verification-tag", "%s emitted a packet with verification tag %08x; the peer's initiate tag is %08x: %s", m.name(X), p.vtag, peer.initTag, p.summary())
			}
		}
	}
	for _, c := range p.chunks {
		switch c.typ {
		case wtINIT, wtINITACK:
			sm.learnInit(c)
			if c.typ == wtINITACK {
				has := false
				for _, pr := range c.params {
					if pr.typ == 7 && len(pr.value) > 0 {
						has = true
					}
				}
				if !has {
					w.violate("C12", "initack-without-cookie", "%s emitted INIT-ACK without a state cookie", m.name(X))
				}
			}
		case wtHBACK:
			for i, e := range sm.hbPending {
				if bytes.Equal(e.value, c.value) {
					sm.hbPending = append(sm.hbPending[:i], sm.hbPending[i+1:]...)
					m.count("c19.heartbeats-answered")
					break
				}
			}
		case wtHEARTBEAT:
			if !c.hbHasInfo {
				w.violate("C12", "heartbeat-without-info", "%s emitted a HEARTBEAT without the mandatory Heartbeat Info parameter (chunk value %x)", m.name(X), c.value)
			}
		}
	}

	// ---- DATA accounting: C10, C06, C17
	hasData := false
	for _, c := range p.chunks {
		if !c.isData() {
			continue
		}
		hasData = true
		ti := sm.sent[c.tsn]
		if ti == nil {
			ti = &tsnInfo{tsn: c.tsn, sid: c.sid, ssn: c.ssn, mid: c.mid, fsn: c.fsn, ppi: c.ppi, b: c.begin, e: c.end, u: c.unordered, idata: c.typ == wtIDATA, n: len(c.userData), order: sm.nFirst}
			sm.nFirst++
			ti.firstSeq = p.seq
			m.newTSN(X, p, c, ti)
			sm.sent[c.tsn] = ti
			m.checkFragmentOrder(X, c, ti)
			if !sm.haveHigh || wSNA32GT(c.tsn, sm.highest) {
				sm.highest, sm.haveHigh = c.tsn, true
			}
			sm.outstanding += ti.n
		} else {
			m.count("retransmitted-chunks")
			if !bytes.Equal([]byte{b2b(ti.b), b2b(ti.e), b2b(ti.u)}, []byte{b2b(c.begin), b2b(c.end), b2b(c.unordered)}) || ti.sid != c.sid || ti.n != len(c.userData) {
				w.violate("C12", "retransmission-differs", "%s retransmitted TSN %d with different header fields", m.name(X), c.tsn)
			}
			if ti.fwd {
				// not a violation by itself: the property bounds the number of transmissions
				// (N+1 / one after the lifetime), which checkPolicy decides
				m.count("c06.sent-after-forward")
			}
		}
		ti.times = append(ti.times, p.at)
		m.checkPolicy(X, ti)
		// C17 kinds
		if m.established(X) {
			wantI := sm.extIData && peer.extIData
			if (c.typ == wtIDATA) != wantI {
				w.violate("C17", "wrong-data-kind", "%s emitted %s but interleaving negotiated=%v (local ext=%v peer ext=%v)", m.name(X), wtName(c.typ), wantI, sm.extIData, peer.extIData)
			}
		}
	}
	if hasData {
		mtu := int(ep.cfg.MTU)
		if mtu == 0 {
			mtu = 1191
		}
		if len(p.raw) > mtu {
			w.violate("C10", "mtu-exceeded", "%s emitted a %d-byte packet carrying user data, MTU is %d: %s", m.name(X), len(p.raw), mtu, p.summary())
		}
		m.count("data-packets")
	}

	// ---- SACK / SHUTDOWN emitted by X as a receiver: C05, C11, C19
	for _, c := range p.chunks {
		switch c.typ {
		case wtSACK:
			m.checkSack(X, p, c)
		case wtSHUTDOWN:
			m.checkCum(X, c.cumTSN, "SHUTDOWN")
			// in the shutdown states DATA may legitimately be refused: no completeness claim any more
			m.s[0].ample, m.s[1].ample = false, false
		case wtSHUTDOWNACK, wtABORT:
			m.s[0].ample, m.s[1].ample = false, false
		case wtRECONFIG:
			for _, rp := range c.reconfig {
				if rp.typ == 16 && rp.result == 1 {
					if sm.resetPerformed == nil {
						sm.resetPerformed = map[uint32]bool{}
					}
					sm.resetPerformed[rp.respSN] = true
				}
			}
		case wtFORWARDTSN, wtIFORWARDTSN:
			m.checkForwardTSN(X, p, c)
		}
	}
}

func b2b(b bool) byte {
	if b {
		return 1
	}
	return 0
}

// established: both sides have declared their INIT parameters.
func (m *wireMon) established(X int) bool { return m.s[0].haveInit && m.s[1].haveInit }

// newTSN: first emission of a TSN by X.
func (m *wireMon) newTSN(X int, p *wirePacket, c *wChunk, ti *tsnInfo) {
	w := m.w
	sm := m.s[X]
	// attribute to a written message
	if m.x != nil {
		if c.typ == wtDATA || c.begin {
			if c.ppi == uint32(PayloadTypeWebRTCDCEP) {
				if c.begin && len(c.userData) >= 4 {
					id := uint32(c.userData[0])<<24 | uint32(c.userData[1])<<16 | uint32(c.userData[2])<<8 | uint32(c.userData[3])
					ti.msg = m.x.index[id|0x80000000]
				}
			} else {
				ti.msg = m.x.index[c.ppi]
			}
		}
		if ti.msg == nil && !c.begin {
			// continuation fragment: same message as the previous TSN of that stream/message
			if prev := sm.sent[c.tsn-1]; prev != nil && prev.sid == c.sid && !prev.e {
				ti.msg = prev.msg
			} else {
				// interleaved fragments: find by (sid, mid, U)
				// (the nearest earlier one: a re-opened stream uses the same MIDs again)
				var best *tsnInfo
				for _, o := range sm.sent {
					if o.idata && o.sid == c.sid && o.mid == c.mid && o.u == c.unordered && o.msg != nil && wSNA32LT(o.tsn, c.tsn) && (best == nil || wSNA32LT(best.tsn, o.tsn)) {
						best = o
					}
				}
				if best != nil {
					ti.msg = best.msg
				}
			}
		}
	}
	// ---- C10: admission of new data
	before := sm.outstanding
	cwnd := int(sm.snapCwnd)
	arwnd := int(m.s[1-X].initARwnd)
	if sm.ack.haveArwnd {
		arwnd = int(sm.ack.arwnd)
	}
	n := len(c.userData)
	if before == 0 {
		m.count("c10.first-in-flight")
		return
	}
	okCwnd := before+n <= cwnd
	okRwnd := before+n <= arwnd
	if (!okCwnd || !okRwnd) && len(sm.pendingAck) > 0 {
		// a SACK is being processed right now: the sender may already have applied it
		o2, a2 := m.withPending(X)
		if before > o2 {
			before = o2
		}
		okCwnd = okCwnd || before+n <= cwnd || before == 0
		okRwnd = okRwnd || before+n <= a2 || before+n <= arwnd || before == 0
	}
	m.count("c10.new-data-checked")
	if !okCwnd {
		w.violate("C10", "cwnd-exceeded", "%s sent new TSN %d (%d bytes) with %d bytes outstanding, cwnd at the start of the step was %d: %s", m.name(X), c.tsn, n, before, cwnd, p.summary())
	} else if !okRwnd {
		w.violate("C10", "rwnd-exceeded", "%s sent new TSN %d (%d bytes) with %d bytes outstanding, the most recently delivered a_rwnd is %d", m.name(X), c.tsn, n, before, arwnd)
	}
}

// withPending: outstanding and a_rwnd as they would be after the acks of the packet in progress.
func (m *wireMon) withPending(X int) (int, int) {
	sm := m.s[X]
	out := sm.outstanding
	arwnd := int(m.s[1-X].initARwnd)
	if sm.ack.haveArwnd {
		arwnd = int(sm.ack.arwnd)
	}
	for _, c := range sm.pendingAck {
		cum := c.cumTSN
		if sm.ack.valid && wSNA32LT(cum, sm.ack.cum) {
			continue
		}
		for _, ti := range sm.sent {
			if ti.acked {
				continue
			}
			if wSNA32LTE(ti.tsn, cum) {
				out -= ti.n
				continue
			}
			for _, g := range c.gaps {
				if wSNA32GTE(ti.tsn, cum+uint32(g.start)) && wSNA32LTE(ti.tsn, cum+uint32(g.end)) {
					out -= ti.n
					break
				}
			}
		}
		if c.typ == wtSACK {
			arwnd = int(c.arwnd)
		}
	}
	return out, arwnd
}

// ---------------------------------------------------------------- delivery

func (m *wireMon) onDeliver(to int, p *wirePacket, data []byte) {
	sm := m.s[to]
	sm.dlvInStep++
	sm.dlvTotal++
	m.commit(to) // the previous packet has been fully processed
	q, err := wDecodePacket(data)
	if err != nil {
		return
	}
	intact := q.crcOK
	if !intact && q.checksum == 0 {
		// zero checksum: accepted only if this endpoint declared acceptance (C13); the
		// model follows the endpoint's declared behaviour
		first := uint8(255)
		if len(q.chunks) > 0 {
			first = q.chunks[0].typ
		}
		intact = sm.zcaPresent && first != wtINIT && first != wtCOOKIEECHO
	}
	if p != nil && p.mutated != nil {
		sm.sawCorrupt = true
	}
	if !intact {
		return
	}
	// verification tag must match for the endpoint to process it
	W := uint32(0)
	if a := m.w.eps[to].assoc; a != nil {
		W = accTSNWindow(a)
	}
	cur := sm.model
	nData, nDup := 0, 0
	for _, c := range q.chunks {
		if c.typ == wtHEARTBEAT && c.hbHasInfo && m.props["C19"] && p != nil && p.from == 1-to && p.mutated == nil {
			if a := m.w.eps[to].assoc; a != nil && hbAnsweringState(accState(a)) {
				sm.hbPending = append(sm.hbPending, hbExpect{append([]byte{}, c.value...), m.w.now()})
			}
		}
		if c.typ == wtHBACK {
			sm.stepHB = true
			sm.hbAckSeq = sm.ackPktSeq
			sm.hbAckSeen = true
		}
		if c.typ == wtSACK || c.typ == wtSHUTDOWN {
			// (a SHUTDOWN acknowledges cumulatively, RFC 9260 9.2, and is a source of round-trip samples too)
			sm.stepAckPkts++
			sm.ackPktSeq++
			// RTT candidates: chunks newly acknowledged by this SACK that were put on the wire exactly once
			if !(sm.ack.valid && wSNA32LT(c.cumTSN, sm.ack.cum)) {
				nowMs := float64(m.w.now()) / float64(time.Millisecond)
				for _, ti := range sm.sent {
					if ti.acked || len(ti.times) != 1 {
						continue
					}
					hit := wSNA32LTE(ti.tsn, c.cumTSN)
					if !hit {
						for _, g := range c.gaps {
							if wSNA32GTE(ti.tsn, c.cumTSN+uint32(g.start)) && wSNA32LTE(ti.tsn, c.cumTSN+uint32(g.end)) {
								hit = true
								break
							}
						}
					}
					if hit {
						r := nowMs - float64(ti.times[0])/float64(time.Millisecond)
						sm.stepRTTCands = append(sm.stepRTTCands, r)
						sm.rttCands = append(sm.rttCands, rttCand{sample: r, pkt: sm.ackPktSeq, tsn: ti.tsn})
					}
				}
			}
		}
	}
	for _, c := range q.chunks {
		switch {
		case c.isData():
			nData++
			if cur != nil && cur.init && (wSNA32LTE(c.tsn, cur.cum) || cur.set[c.tsn]) {
				nDup++
			}
			sm.dlv[c.tsn] = true
			if cur != nil && cur.init {
				nm := cur.clone()
				nm.data(c.tsn, W)
				sm.inProgress = append(sm.inProgress, nm)
				cur = nm
			}
			if sm.needAckSince < 0 {
				sm.needAckSince = m.w.now()
				sm.needAckNow, sm.needAckWhy = false, ""
			}
		case c.typ == wtFORWARDTSN || c.typ == wtIFORWARDTSN:
			if !sm.haveFwd || wSNA32GT(c.newCumTSN, sm.maxFwd) {
				sm.maxFwd, sm.haveFwd = c.newCumTSN, true
			}
			if a := m.w.eps[to].assoc; a != nil {
				for _, fs := range c.fwdStreams {
					if !accHasStream(a, fs.sid) {
						if sm.fwdNoStream == nil {
							sm.fwdNoStream = map[uint16]bool{}
						}
						sm.fwdNoStream[fs.sid] = true
						m.w.probe("forward-tsn-for-unknown-stream")
					}
				}
			}
			if c.typ == wtIFORWARDTSN {
				if sm.fwdUMID == nil {
					sm.fwdUMID = map[uint16]uint32{}
				}
				for _, fs := range c.fwdStreams {
					if fs.unordered {
						if cur, ok := sm.fwdUMID[fs.sid]; !ok || wSNA32GT(fs.mid, cur) {
							sm.fwdUMID[fs.sid] = fs.mid
						}
					}
				}
			}
			if cur != nil && cur.init {
				nm := cur.clone()
				nm.forward(c.newCumTSN)
				sm.inProgress = append(sm.inProgress, nm)
				cur = nm
			}
		case c.typ == wtRECONFIG:
			for _, rp := range c.reconfig {
				if rp.typ == 13 {
					if sm.inboundReset == nil {
						sm.inboundReset = map[uint16]bool{}
					}
					for _, sid := range rp.sids {
						sm.inboundReset[sid] = true
					}
				}
				if rp.typ == 13 && sm.resetPerformed[rp.reqSN] {
					if sm.replayedReset == nil {
						sm.replayedReset = map[uint16]int64{}
					}
					for _, sid := range rp.sids {
						sm.replayedReset[sid] = m.w.evSeq
						if sm.replayedResetAt == nil {
							sm.replayedResetAt = map[uint16]time.Duration{}
						}
						sm.replayedResetAt[sid] = m.w.now()
					}
					m.w.probe("reset-request-replayed")
				}
			}
		case c.typ == wtSACK || c.typ == wtSHUTDOWN:
			sm.pendingAck = append(sm.pendingAck, c)
		case c.typ == wtINIT || c.typ == wtINITACK:
			// the receiver's model starts at the peer's initial TSN - 1
			if sm.model == nil {
				sm.model = &rxModel{cum: c.initialTSN - 1, set: map[uint32]bool{}, init: true}
				cur = sm.model
			}
		}
	}
	if sm.ample {
		was := sm.needAckNow
		sm.ackUrgency(cur, nData, nDup)
		if sm.needAckNow && !was {
			sm.needAckNowAt = m.w.now()
		}
	}
}

// ackUrgency: after a DATA packet, RFC 9260 6.2 wants the SACK at once if it left a gap or was a duplicate.
func (sm *sideMon) ackUrgency(cur *rxModel, nData, nDup int) {
	if nData == 0 || sm.needAckSince < 0 {
		return
	}
	if sm.needAckNow {
		return
	}
	if cur != nil && cur.init && len(cur.set) > 0 {
		sm.needAckNow, sm.needAckWhy = true, "left a gap in the received TSNs"
	} else if nDup == nData {
		sm.needAckNow, sm.needAckWhy = true, "contained only duplicate DATA chunks"
	}
}

// commit applies the effects of the packet whose processing has finished.
func (m *wireMon) commit(to int) {
	sm := m.s[to]
	if n := len(sm.inProgress); n > 0 {
		sm.model = sm.inProgress[n-1]
		sm.inProgress = nil
	}
	for _, c := range sm.pendingAck {
		cum := c.cumTSN
		if sm.ack.valid && wSNA32LT(cum, sm.ack.cum) {
			continue // out-of-order acknowledgement (RFC 9260 6.2.1 D i)
		}
		for _, ti := range sm.sent {
			if ti.acked {
				continue
			}
			hit := wSNA32LTE(ti.tsn, cum)
			if !hit {
				for _, g := range c.gaps {
					if wSNA32GTE(ti.tsn, cum+uint32(g.start)) && wSNA32LTE(ti.tsn, cum+uint32(g.end)) {
						hit = true
						break
					}
				}
			}
			if hit {
				ti.acked = true
				sm.outstanding -= ti.n
				m.onAcked(to, ti)
			}
		}
		sm.ack.cum = cum
		sm.ack.valid = true
		if c.typ == wtSACK {
			sm.ack.arwnd = c.arwnd
			sm.ack.haveArwnd = true
			sm.ack.gaps = c.gaps
		}
	}
	sm.pendingAck = nil
}

func (m *wireMon) onAcked(side int, ti *tsnInfo) {
	sm := m.s[side]
	if sm.ackedBytes == nil {
		sm.ackedBytes = map[uint16]int{}
	}
	sm.ackedBytes[ti.sid] += ti.n
}

// onReadCall: the endpoint asks for the next packet => previous one fully processed.
func (m *wireMon) onReadCall(side int) { m.commit(side) }

// ---------------------------------------------------------------- SACK checks (C05, C11)

func (m *wireMon) checkCum(E int, cum uint32, what string) {
	w := m.w
	sm := m.s[E]
	peer := m.s[1-E]
	if !peer.haveInit {
		return
	}
	base := peer.initialTSN - 1
	if sm.haveSackCum {
		if wSNA32LT(cum, sm.lastSackCum) {
			w.violate("C05", "cum-backwards", "%s emitted %s with cumulative TSN %d after having emitted %d", m.name(E), what, cum, sm.lastSackCum)
			return
		}
		base = sm.lastSackCum
	}
	if cum-base > 1<<20 {
		w.violate("C05", "cum-covers-unreceived", "%s emitted %s with cumulative TSN %d, %d beyond the previous point %d", m.name(E), what, cum, cum-base, base)
		return
	}
	for t := base + 1; wSNA32LTE(t, cum); t++ {
		if !sm.dlv[t] && !(sm.haveFwd && wSNA32LTE(t, sm.maxFwd)) {
			w.violate("C05", "cum-covers-unreceived", "%s emitted %s with cumulative TSN %d but TSN %d was never delivered to it nor skipped by a FORWARD-TSN (max forward %v/%d)", m.name(E), what, cum, t, sm.haveFwd, sm.maxFwd)
			return
		}
	}
	sm.lastSackCum, sm.haveSackCum = cum, true
}

func (m *wireMon) checkSack(E int, p *wirePacket, c *wChunk) {
	w := m.w
	sm := m.s[E]
	m.count("sacks-checked")
	m.checkCum(E, c.cumTSN, "SACK")
	prevEnd := 0
	for i, g := range c.gaps {
		// (a block starting at offset 1, or adjacent blocks, are redundant but truthful: the property
		// demands that named TSNs were received, not a canonical encoding)
		if g.start < 1 || g.end < g.start || (i > 0 && int(g.start) <= prevEnd) {
			w.violate("C05", "gap-malformed", "%s emitted SACK with invalid gap blocks %v (cum %d)", m.name(E), c.gaps, c.cumTSN)
			return
		}
		prevEnd = int(g.end)
		for o := uint32(g.start); o <= uint32(g.end); o++ {
			t := c.cumTSN + o
			if !sm.dlv[t] {
				w.violate("C05", "gap-names-unreceived", "%s emitted SACK cum=%d gaps=%v naming TSN %d which was never delivered to it", m.name(E), c.cumTSN, c.gaps, t)
				return
			}
		}
	}
	sm.needAckSince = -1
	sm.needAckNow = false
	// completeness against the reference receiver (only when nothing may legitimately be refused)
	if sm.model != nil && sm.model.init && sm.ample && !sm.sawCorrupt && m.props["C05.complete"] {
		cands := append([]*rxModel{sm.model}, sm.inProgress...)
		ok := false
		// compare the sets of acknowledged TSNs: normalise the SACK (advance through a block
		// that starts right after the cumulative point, merge adjacent blocks)
		ncum, ngaps := normaliseSack(c.cumTSN, c.gaps)
		for _, cm := range cands {
			if cm.cum == ncum && gapsEqual(cm.gapBlocks(), ngaps) {
				ok = true
				break
			}
		}
		m.count("c05.complete-checked")
		if !ok {
			last := cands[len(cands)-1]
			w.violate("C05", "sack-incomplete", "%s emitted SACK cum=%d gaps=%v; the reference receiver (all packets processed so far) has cum=%d gaps=%v (%d candidate states)", m.name(E), c.cumTSN, c.gaps, last.cum, last.gapBlocks(), len(cands))
		}
	}
	// C11: advertised window = buffer - bytes held (white-box, state is exactly the gather-time state)
	if a := w.eps[E].assoc; a != nil && m.props["C11"] {
		buf := int(w.eps[E].cfg.RecvBuf)
		if buf == 0 {
			buf = 1024 * 1024
		}
		// The SACK is built under the association lock some steps before it is written (timer
		// mutexes inside the gather are scheduling points), and readers may release bytes
		// meanwhile: any counter value since the emitting task last woke up is a legitimate basis.
		since := 0
		if cur := w.sim.cur; cur != nil {
			since = cur.wokeStep
		}
		held := accCounterSum(a)
		cands := []int{held}
		hist := sm.heldHist
		for i := len(hist) - 1; i >= 0; i-- {
			cands = append(cands, hist[i].sum)
			if hist[i].step < since {
				break
			}
		}
		ok := false
		for _, h := range cands {
			want := buf - h
			if want < 0 {
				want = 0
			}
			if int(c.arwnd) == want {
				ok = true
			}
		}
		m.count("c11.arwnd-checked")
		if !ok {
			w.violate("C11", "arwnd-mismatch", "%s advertised a_rwnd=%d, but buffer %d - counted bytes %d = %d (candidates since step %d: %v)", m.name(E), c.arwnd, buf, held, buf-held, since, cands)
		}
		if c.arwnd == 0 {
			w.probe("arwnd-zero-advertised")
		}
	}
}

// ---------------------------------------------------------------- per step

func (m *wireMon) onStep() {
	w := m.w
	for side := 0; side < 2; side++ {
		ep := w.eps[side]
		if ep == nil || ep.assoc == nil {
			continue
		}
		a := ep.assoc
		sm := m.s[side]
		cw := a.CWND()
		mtu := ep.cfg.MTU
		if mtu == 0 {
			mtu = 1191
		}
		if m.props["C05"] {
			// the tracker of received TSNs must agree with itself after every step: a stale bit (or a wrong
			// count) names a TSN that was never received as received one revolution of the bitmap later, which
			// the runs are usually too short to reach
			if msg := accReceiveWindowSanity(a); msg != "" {
				w.violate("C05", "received-tsn-tracker-inconsistent", "%s: %s; a later SACK would report a TSN that was never received (or hide one that was)", ep.name, msg)
				return
			}
		}
		if len(sm.hbPending) > 0 && w.now()-sm.hbPending[0].at > 100*time.Millisecond {
			e := sm.hbPending[0]
			sm.hbPending = sm.hbPending[1:]
			c := ep.conn
			c.mu.Lock()
			dead := c.closed || c.writeErr != nil || c.readErr != nil
			c.mu.Unlock()
			if !dead && hbAnsweringState(accState(a)) && w.viol == nil {
				w.violate("C19", "heartbeat-not-answered", "%s (state %s) received the peer's HEARTBEAT at %v and has not answered it with a HEARTBEAT-ACK 100 ms later (info %x)", ep.name, accStateName(a), e.at, e.value)
			}
		}
		if m.props["C10"] {
			if cw < mtu {
				w.violate("C10", "cwnd-below-mtu", "%s: cwnd=%d fell below one MTU (%d)", ep.name, cw, mtu)
			}
			t3 := accT3Timeouts(a)
			snapT3Before := sm.snapT3
			if t3 > sm.snapT3 {
				w.probe("t3-expiry")
				floor := mtu
				if ep.cfg.MinCwnd > floor {
					floor = ep.cfg.MinCwnd
				}
				if cw > sm.snapCwnd || cw != floor {
					w.violate("C10", "cwnd-not-cut-on-t3", "%s: T3 expired, cwnd went %d -> %d (expected max(MTU, MinCwnd) = %d)", ep.name, sm.snapCwnd, cw, floor)
				}
			}
			sm.snapT3 = t3
			fr := accInFastRecovery(a)
			pin := accPacketsReceived(a)
			onePkt := pin-sm.snapPktsIn <= 1
			sm.snapPktsIn = pin
			if fr && !sm.snapFR {
				w.probe("fast-recovery-entered")
				// RFC 9260 7.2.3: cwnd = ssthresh = max(cwnd/2, 4*MTU), where cwnd is the value at the
				// moment of loss detection; the same SACK may first have grown it (at most doubled it
				// in slow start), so with one packet processed in the step the result is bounded by
				// the value at the start of the step.
				grow := sm.snapCwnd // slow start: at most doubled by the same SACK
				if ep.cfg.CwndCAStep > grow {
					grow = ep.cfg.CwndCAStep // congestion avoidance: configured step
				}
				if mtu > grow {
					grow = mtu
				}
				lim := (sm.snapCwnd + grow) / 2
				if lim < 4*mtu {
					lim = 4 * mtu
				}
				if ep.cfg.MinCwnd > lim {
					lim = ep.cfg.MinCwnd
				}
				if sm.dlvInStep <= 1 && onePkt && cw > lim {
					w.violate("C10", "cwnd-not-cut-on-fast-recovery", "%s: entered fast recovery, cwnd went %d -> %d (limit %d)", ep.name, sm.snapCwnd, cw, lim)
				}
			}
			{
				// the SACK-based loss signal itself: a chunk that has just collected its third miss indication while
				// the sender was not in fast recovery must have put it there (whatever other recovery is active)
				// (judged only when at most one inbound packet was processed in the step: a read loop that was kept
				// waiting works off its whole queue in one step and may enter and leave fast recovery in it)
				cur := map[uint32]bool{}
				for _, tsn := range accMissedThrice(a) {
					cur[tsn] = true
					if !sm.miss3[tsn] && onePkt && !sm.snapFR && !fr && t3 == snapT3Before && w.viol == nil {
						w.violate("C10", "cwnd-not-cut-on-loss-signal", "%s: TSN %d collected its third miss indication while not in fast recovery, but fast recovery was not entered and cwnd stayed %d -> %d", ep.name, tsn, sm.snapCwnd, cw)
					}
				}
				sm.miss3 = cur
			}
			sm.snapFR = fr
		}
		sm.snapCwnd = cw
		sm.dlvInStep = 0
		if hs := accCounterSum(a); len(sm.heldHist) == 0 || sm.heldHist[len(sm.heldHist)-1].sum != hs {
			sm.heldHist = append(sm.heldHist, heldPoint{w.sim.nSteps, hs})
			if len(sm.heldHist) > 4096 {
				sm.heldHist = sm.heldHist[2048:]
			}
		}
		if m.props["C11"] {
			m.checkCounters(side)
		}
	}
	if m.props["C15"] {
		m.checkBufferedIdle()
	}
	if m.props["C19"] {
		for side := 0; side < 2; side++ {
			if ep := w.eps[side]; ep != nil && ep.assoc != nil && w.viol == nil {
				m.checkTimersStep(side)
			}
		}
	}
}

func (m *wireMon) checkCounters(side int) {
	w := m.w
	ep := w.eps[side]
	for _, s := range accStreams(ep.assoc) {
		cnt, truth := accReasmCounter(s), accReasmTrueBytes(s)
		if cnt != truth {
			w.violate("C11", "counter-mismatch", "%s stream %d: reassembly byte counter %d but %d bytes are reachable from the queue", ep.name, s.streamIdentifier, cnt, truth)
			return
		}
	}
}

// ---------------------------------------------------------------- C12 differential codec check

func (m *wireMon) checkCodec(p *wirePacket) {
	w := m.w
	rp := &packet{}
	if err := rp.unmarshal(false, p.raw); err != nil {
		w.violate("C12", "own-decoder-rejects", "%s emitted a packet its own decoder rejects: %v (%s)", m.name(p.from), err, p.summary())
		return
	}
	if len(rp.chunks) != len(p.chunks) {
		w.violate("C12", "chunk-count-differs", "repository decoder sees %d chunks, independent decoder %d: %s", len(rp.chunks), len(p.chunks), p.summary())
		return
	}
	for i, rc := range rp.chunks {
		if d := diffChunk(rc, p.chunks[i]); d != "" {
			w.violate("C12", "field-differs", "chunk %d of %s: %s", i, p.summary(), d)
			return
		}
	}
	re, err := rp.marshal(p.checksum != 0)
	if err != nil {
		w.violate("C12", "reencode-fails", "re-encoding a decoded emitted packet fails: %v (%s)", err, p.summary())
		return
	}
	if !bytes.Equal(re, p.raw) {
		w.violate("C12", "reencode-unstable", "decode+encode of an emitted packet is not stable: %s\n emitted %x\n reencod %x", p.summary(), p.raw, re)
	}
	m.count("c12.codec-checked")
}

func diffChunk(rc chunk, c *wChunk) string {
	switch x := rc.(type) {
	case *chunkPayloadData:
		if x.tsn != c.tsn || x.streamIdentifier != c.sid || x.beginningFragment != c.begin || x.endingFragment != c.end || x.unordered != c.unordered || !bytes.Equal(x.userData, c.userData) {
			return fmt.Sprintf("DATA fields differ: repo tsn=%d sid=%d B=%v E=%v U=%v len=%d vs %s", x.tsn, x.streamIdentifier, x.beginningFragment, x.endingFragment, x.unordered, len(x.userData), c.summary())
		}
		if x.isIData() != (c.typ == wtIDATA) {
			return "DATA kind differs"
		}
		if c.typ == wtIDATA {
			if x.messageIdentifier != c.mid || (c.begin && uint32(x.payloadType) != c.ppi) || (!c.begin && x.fragmentSequenceNumber != c.fsn) {
				return fmt.Sprintf("I-DATA mid/ppi/fsn differ: repo mid=%d ppi=%d fsn=%d vs %s", x.messageIdentifier, x.payloadType, x.fragmentSequenceNumber, c.summary())
			}
		} else if x.streamSequenceNumber != c.ssn || uint32(x.payloadType) != c.ppi {
			return fmt.Sprintf("DATA ssn/ppi differ: repo ssn=%d ppi=%d vs %s", x.streamSequenceNumber, x.payloadType, c.summary())
		}
	case *chunkSelectiveAck:
		if c.typ != wtSACK || x.cumulativeTSNAck != c.cumTSN || x.advertisedReceiverWindowCredit != c.arwnd || len(x.gapAckBlocks) != len(c.gaps) || len(x.duplicateTSN) != len(c.dups) {
			return "SACK fields differ"
		}
		for i, g := range x.gapAckBlocks {
			if g.start != c.gaps[i].start || g.end != c.gaps[i].end {
				return "SACK gap blocks differ"
			}
		}
		for i, d := range x.duplicateTSN {
			if d != c.dups[i] {
				return "SACK duplicate TSNs differ"
			}
		}
	case *chunkInit:
		if c.typ != wtINIT || x.initiateTag != c.initTag || x.initialTSN != c.initialTSN || x.advertisedReceiverWindowCredit != c.arwnd || x.numInboundStreams != c.inStreams || x.numOutboundStreams != c.outStreams {
			return "INIT fields differ"
		}
	case *chunkInitAck:
		if c.typ != wtINITACK || x.initiateTag != c.initTag || x.initialTSN != c.initialTSN || x.advertisedReceiverWindowCredit != c.arwnd {
			return "INIT-ACK fields differ"
		}
	case *chunkForwardTSN:
		if c.typ != wtFORWARDTSN || x.newCumulativeTSN != c.newCumTSN || len(x.streams) != len(c.fwdStreams) {
			return "FORWARD-TSN fields differ"
		}
		for i, s := range x.streams {
			if s.identifier != c.fwdStreams[i].sid || s.sequence != c.fwdStreams[i].ssn {
				return "FORWARD-TSN stream entries differ"
			}
		}
	case *chunkIForwardTSN:
		if c.typ != wtIFORWARDTSN || x.newCumulativeTSN != c.newCumTSN || len(x.streams) != len(c.fwdStreams) {
			return "I-FORWARD-TSN fields differ"
		}
		for i, s := range x.streams {
			f := c.fwdStreams[i]
			if s.identifier != f.sid || s.unordered != f.unordered || s.messageIdentifier != f.mid {
				return "I-FORWARD-TSN stream entries differ"
			}
		}
	case *chunkShutdown:
		if c.typ != wtSHUTDOWN || x.cumulativeTSNAck != c.cumTSN {
			return "SHUTDOWN fields differ"
		}
	case *chunkReconfig:
		if c.typ != wtRECONFIG {
			return "RECONFIG type differs"
		}
		ps := []param{x.paramA}
		if x.paramB != nil {
			ps = append(ps, x.paramB)
		}
		if len(ps) != len(c.reconfig) {
			return fmt.Sprintf("RECONFIG parameter count differs: %d vs %d", len(ps), len(c.reconfig))
		}
		for i, pr := range ps {
			switch q := pr.(type) {
			case *paramOutgoingResetRequest:
				r := c.reconfig[i]
				if r.typ != 13 || q.reconfigRequestSequenceNumber != r.reqSN || q.senderLastTSN != r.lastTSN || len(q.streamIdentifiers) != len(r.sids) {
					return "RECONFIG request fields differ"
				}
			case *paramReconfigResponse:
				r := c.reconfig[i]
				if r.typ != 16 || q.reconfigResponseSequenceNumber != r.respSN || uint32(q.result) != r.result {
					return "RECONFIG response fields differ"
				}
			}
		}
	case *chunkAbort:
		if c.typ != wtABORT || len(x.errorCauses) != len(c.causes) {
			return fmt.Sprintf("ABORT cause count differs: %d vs %d", len(x.errorCauses), len(c.causes))
		}
	case *chunkError:
		if c.typ != wtERROR || len(x.errorCauses) != len(c.causes) {
			return fmt.Sprintf("ERROR cause count differs: %d vs %d", len(x.errorCauses), len(c.causes))
		}
	}
	return ""
}

// placeholders filled in by the property files
func (m *wireMon) checkPolicy(X int, ti *tsnInfo)                     { m.checkPolicyImpl(X, ti) }
func (m *wireMon) checkForwardTSN(X int, p *wirePacket, c *wChunk)    { m.checkForwardTSNImpl(X, p, c) }
