package sctp

// C12 (auxiliary leg, no simulation: the codec is a pure function of the bytes): structurally valid
// packets with arbitrary field values are built by the harness' own encoder. For each of them
//   - what the repository decoder accepts must carry exactly the field values it was built from
//     (differential against the independent decoder),
//   - decoding, re-encoding and decoding again must give the same values,
//   - a chunk must decode to the same values whether it stands alone or is bundled with others.

import (
	"fmt"
)

func init() { registerScenario("C12g", scenarioCodecGenerated) }

type genChunk struct {
	typ   uint8
	flags uint8
	value []byte
	name  string
}

func (g *codecGen) u32() uint32 { return uint32(g.tp.intn(1<<16))<<16 | uint32(g.tp.intn(1<<16)) }

type codecGen struct {
	tp *vsimTape
}

func (g *codecGen) bytes(n int) []byte {
	b := make([]byte, n)
	for i := range b {
		b[i] = byte(g.tp.intn(256))
	}
	return b
}

func (g *codecGen) edge32() uint32 {
	return pick(g.tp, 0, 1, 2, 0x7fffffff, 0x80000000, 0xfffffffe, 0xffffffff, g.u32(), g.u32())
}

// chunk builds one structurally valid chunk. bundleable=false for chunks that must stand alone.
func (g *codecGen) chunk(alone bool) genChunk {
	tp := g.tp
	for {
		switch tp.intn(16) {
		case 0:
			n := pick(tp, 1, 2, 3, 4, 5, 7, 100, 1157)
			return genChunk{wtDATA, uint8(tp.intn(16)), wDataValue(g.edge32(), uint16(tp.intn(65536)), uint16(tp.intn(65536)), g.edge32(), g.bytes(n)), "DATA"}
		case 1:
			n := pick(tp, 1, 2, 3, 4, 5, 7, 100, 1153)
			return genChunk{wtIDATA, uint8(tp.intn(16)), wIDataValue(g.edge32(), uint16(tp.intn(65536)), g.edge32(), g.edge32(), g.bytes(n)), "I-DATA"}
		case 2, 3:
			var gaps []wGap
			for i := pick(tp, 0, 0, 1, 2, 5, 40); i > 0; i-- {
				s := uint16(tp.intn(65536))
				gaps = append(gaps, wGap{s, s + uint16(tp.intn(100))})
			}
			var dups []uint32
			for i := pick(tp, 0, 0, 1, 2, 5, 40); i > 0; i-- {
				dups = append(dups, g.edge32())
			}
			return genChunk{wtSACK, 0, wSackValue(g.edge32(), g.edge32(), gaps, dups), fmt.Sprintf("SACK(%d gaps, %d dups)", len(gaps), len(dups))}
		case 4:
			if !alone {
				continue
			}
			v := wU32(g.u32()|1, g.edge32(), uint32(1+tp.intn(65535))<<16|uint32(1+tp.intn(65535)), g.edge32())
			for i := tp.intn(4); i > 0; i-- {
				switch tp.intn(4) {
				case 0:
					v = append(v, wParamTLV(0xc000, nil)...)
				case 1:
					v = append(v, wParamTLV(0x8008, g.bytes(tp.intn(6)))...)
				case 2:
					v = append(v, wParamTLV(0x8001, wU32(1))...)
				default:
					v = append(v, wParamTLV(0x8002, g.bytes(32))...)
				}
			}
			t := uint8(wtINIT)
			name := "INIT"
			if tp.intn(2) == 0 {
				t, name = wtINITACK, "INIT-ACK"
				v = append(v, wParamTLV(7, g.bytes(4+tp.intn(60)))...)
			}
			return genChunk{t, 0, v, name}
		case 5:
			t := uint8(pick(tp, wtHEARTBEAT, wtHBACK))
			return genChunk{t, 0, wParamTLV(1, g.bytes(pick(tp, 0, 1, 3, 8, 9, 40))), wtName(t)}
		case 6, 7:
			var v []byte
			for i := tp.intn(4); i > 0; i-- {
				// (cause lengths that are multiples of four: whether shorter causes are padded is not
				// spelled out by RFC 9260, and the repository neither pads nor skips padding)
				body := g.bytes(pick(tp, 0, 4, 8, 20))
				l := 4 + len(body)
				v = append(v, 0, byte(pick(tp, 1, 2, 3, 6, 12, 13, 200)), byte(l>>8), byte(l))
				v = append(v, body...)
				for len(v)%4 != 0 {
					v = append(v, 0)
				}
			}
			t := uint8(pick(tp, wtABORT, wtERROR))
			return genChunk{t, uint8(tp.intn(2)), v, fmt.Sprintf("%s(%d bytes of causes)", wtName(t), len(v))}
		case 8:
			return genChunk{wtSHUTDOWN, 0, wU32(g.edge32()), "SHUTDOWN"}
		case 9:
			t := uint8(pick(tp, wtSHUTDOWNACK, wtSHUTDOWNCOMPLETE, wtCOOKIEACK))
			return genChunk{t, uint8(tp.intn(2)), nil, wtName(t)}
		case 10:
			return genChunk{wtCOOKIEECHO, 0, g.bytes(pick(tp, 1, 4, 5, 63, 200)), "COOKIE-ECHO"}
		case 11:
			v := wU32(g.edge32())
			for i := pick(tp, 0, 1, 2, 10); i > 0; i-- {
				v = append(v, byte(tp.intn(256)), byte(tp.intn(256)), byte(tp.intn(256)), byte(tp.intn(256)))
			}
			return genChunk{wtFORWARDTSN, 0, v, "FORWARD-TSN"}
		case 12:
			// (one entry per (stream, U) pair: the repository decoder merges repeated pairs, which keeps the meaning)
			v := wU32(g.edge32())
			seen := map[[3]byte]bool{}
			for i := pick(tp, 0, 1, 2, 10); i > 0; i-- {
				k := [3]byte{byte(tp.intn(256)), byte(tp.intn(256)), byte(tp.intn(2))}
				if seen[k] {
					continue
				}
				seen[k] = true
				v = append(v, k[0], k[1], 0, k[2])
				v = append(v, wU32(g.edge32())...)
			}
			return genChunk{wtIFORWARDTSN, 0, v, "I-FORWARD-TSN"}
		default:
			var v []byte
			for i := 1 + tp.intn(2); i > 0; i-- {
				if tp.intn(2) == 0 {
					body := wU32(g.edge32(), g.edge32(), g.edge32())
					for j := pick(tp, 0, 1, 2, 3, 9); j > 0; j-- {
						body = append(body, byte(tp.intn(256)), byte(tp.intn(256)))
					}
					v = append(v, wParamTLV(13, body)...)
				} else {
					v = append(v, wParamTLV(16, wU32(g.edge32(), uint32(tp.intn(8))))...)
				}
			}
			return genChunk{wtRECONFIG, 0, v, "RECONFIG"}
		}
	}
}

// libDecode decodes with the repository codec and compares with the independent decoder's reading.
func libDecode(raw []byte) (*packet, *wirePacket, string) {
	ip, err := wDecodePacket(raw)
	if err != nil || ip == nil || ip.decodeErr != "" {
		return nil, nil, "harness: the independent decoder rejects a packet the harness built"
	}
	rp := &packet{}
	if err := rp.unmarshal(false, raw); err != nil {
		return nil, ip, "" // not accepted: nothing is claimed about it
	}
	if len(rp.chunks) != len(ip.chunks) {
		return rp, ip, fmt.Sprintf("the repository decoder sees %d chunks, the packet was built from %d", len(rp.chunks), len(ip.chunks))
	}
	for i, rc := range rp.chunks {
		if d := diffChunk(rc, ip.chunks[i]); d != "" {
			return rp, ip, fmt.Sprintf("chunk %d: %s", i, d)
		}
	}
	return rp, ip, ""
}

func scenarioCodecGenerated(w *world) {
	g := &codecGen{tp: w.wtape}
	tp := w.wtape
	n := 200
	if thorough() {
		n = 2000
	}
	accepted, rejected := 0, 0
	for i := 0; i < n && w.viol == nil; i++ {
		first := g.chunk(true)
		chunks := []genChunk{first}
		if first.typ != wtINIT && first.typ != wtINITACK {
			for j := pick(tp, 0, 0, 1, 2, 4); j > 0; j-- {
				chunks = append(chunks, g.chunk(false))
			}
		}
		vtag := g.u32()
		if first.typ == wtINIT {
			vtag = 0
		}
		b := wNewPacket(uint16(1+tp.intn(65535)), uint16(1+tp.intn(65535)), vtag)
		desc := ""
		for _, c := range chunks {
			b.chunk(c.typ, c.flags, c.value)
			desc += c.name + " "
		}
		raw := b.bytes(true)
		rp, ip, diff := libDecode(raw)
		if diff != "" {
			w.violate("C12", "field-differs", "built packet [%s]: %s\n raw %x", desc, diff, raw)
			return
		}
		if rp == nil {
			rejected++
			continue
		}
		accepted++
		// decode - encode - decode
		re, err := rp.marshal(true)
		if err != nil {
			w.violate("C12", "reencode-fails", "re-encoding an accepted packet [%s] fails: %v\n raw %x", desc, err, raw)
			return
		}
		rp2 := &packet{}
		if err := rp2.unmarshal(false, re); err != nil {
			w.violate("C12", "reencode-unstable", "the re-encoding of an accepted packet [%s] is rejected by the decoder: %v\n raw %x\n re  %x", desc, err, raw, re)
			return
		}
		if len(rp2.chunks) != len(ip.chunks) {
			w.violate("C12", "reencode-unstable", "decode + encode + decode of [%s] changes the number of chunks from %d to %d\n raw %x\n re  %x", desc, len(ip.chunks), len(rp2.chunks), raw, re)
			return
		}
		for k, rc := range rp2.chunks {
			if d := diffChunk(rc, ip.chunks[k]); d != "" {
				w.violate("C12", "reencode-unstable", "decode + encode + decode of [%s] changes chunk %d: %s\n raw %x\n re  %x", desc, k, d, raw, re)
				return
			}
		}
		// bundling independence: every chunk alone must read as it does in the bundle
		if len(chunks) > 1 {
			for k, c := range chunks {
				one := wNewPacket(5000, 5000, vtag).chunk(c.typ, c.flags, c.value).bytes(true)
				rp1, _, d1 := libDecode(one)
				if d1 != "" {
					w.violate("C12", "field-differs", "built packet [%s alone]: %s\n raw %x", c.name, d1, one)
					return
				}
				if rp1 == nil {
					continue
				}
				if d := diffChunk(rp1.chunks[0], ip.chunks[k]); d != "" {
					w.violate("C12", "bundling-changes-meaning", "chunk %d (%s) of [%s] decodes differently alone and in the bundle: %s\n bundle %x", k, c.name, desc, d, raw)
					return
				}
			}
			w.probe("bundle-checked")
		}
	}
	if w.extra == nil {
		w.extra = map[string]any{}
	}
	w.extra["c12.generated-accepted"] = accepted
	w.extra["c12.generated-rejected"] = rejected
}
