package sctp

// White-box access. This is the only harness file that names unexported
// identifiers of pion/sctp; all reads happen in the driver at quiescent points
// (no task is running), so no lock is taken.

import (
	"fmt"
	"math/bits"
	"sync/atomic"
)

func accBufferedAmount(a *Association) int {
	return a.pendingQueue.getNumBytes() + a.inflightQueue.getNumBytes()
}

func accState(a *Association) uint32 { return atomic.LoadUint32(&a.state) }

func accStateName(a *Association) string { return getAssociationStateString(accState(a)) }

func accStreamBuffered(s *Stream) uint64 { return s.bufferedAmount }

func accInflight(a *Association) (size int, bytes int) {
	return a.inflightQueue.size(), a.inflightQueue.getNumBytes()
}

func accPending(a *Association) (size int, bytes int) {
	return a.pendingQueue.size(), a.pendingQueue.getNumBytes()
}

func accTimers(a *Association) string {
	return "t3=" + b2s(a.t3RTX.state == rtxTimerStarted) + " t2=" + b2s(a.t2Shutdown.state == rtxTimerStarted) +
		" treconf=" + b2s(a.tReconfig.state == rtxTimerStarted) + " ack=" + b2s(a.ackTimer.state == ackTimerStarted)
}

func b2s(b bool) string {
	if b {
		return "1"
	}
	return "0"
}

func accTSNWindow(a *Association) uint32 { return a.payloadQueue.maxTSNOffset }

func accStreams(a *Association) []*Stream {
	ids := make([]int, 0, len(a.streams))
	for id := range a.streams {
		ids = append(ids, int(id))
	}
	sortInts(ids)
	out := make([]*Stream, 0, len(ids))
	for _, id := range ids {
		out = append(out, a.streams[uint16(id)])
	}
	return out
}

func sortInts(a []int) {
	for i := 1; i < len(a); i++ {
		for j := i; j > 0 && a[j] < a[j-1]; j-- {
			a[j], a[j-1] = a[j-1], a[j]
		}
	}
}

func accCounterSum(a *Association) int {
	n := 0
	for _, s := range a.streams {
		n += s.reassemblyQueue.getNumBytes()
	}
	return n
}

func accReasmCounter(s *Stream) int { return s.reassemblyQueue.getNumBytes() }

// accReasmTrueBytes recomputes the user bytes reachable from the queue structures.
func accReasmTrueBytes(s *Stream) int {
	r := s.reassemblyQueue
	seen := map[*chunkPayloadData]bool{}
	n := 0
	add := func(c *chunkPayloadData) {
		if c != nil && !seen[c] {
			seen[c] = true
			n += len(c.userData)
		}
	}
	for _, set := range r.ordered {
		for _, c := range set.chunks {
			add(c)
		}
	}
	for _, set := range r.unordered {
		for _, c := range set.chunks {
			add(c)
		}
	}
	for _, c := range r.unorderedChunks {
		add(c)
	}
	for _, set := range r.orderedMID {
		for _, c := range set.chunks {
			add(c)
		}
	}
	for _, set := range r.unorderedMID {
		for _, c := range set.chunks {
			add(c)
		}
	}
	for _, set := range r.orderedMIDMap {
		for _, c := range set.chunks {
			add(c)
		}
	}
	for _, set := range r.unorderedMIDMap {
		for _, c := range set.chunks {
			add(c)
		}
	}
	return n
}

func accT3Timeouts(a *Association) uint64 { return a.stats.getNumT3Timeouts() }

func accInFastRecovery(a *Association) bool { return a.inFastRecovery }

func accPacketsReceived(a *Association) uint64 { return a.stats.getNumPacketsReceived() }

// accMissedThrice lists the outstanding TSNs that have collected three miss indications (the SACK-based
// loss signal of RFC 9260 7.2.4) and are neither acknowledged nor abandoned.
func accMissedThrice(a *Association) []uint32 {
	var out []uint32
	q := a.inflightQueue.chunks
	for i := 0; i < q.Len(); i++ {
		c := q.At(i)
		if c.missIndicator >= 3 && !c.acked && !c.abandoned() {
			out = append(out, c.tsn)
		}
	}
	return out
}

func accHeldDescription(a *Association) string {
	out := ""
	for _, s := range accStreams(a) {
		r := s.reassemblyQueue
		if r.getNumBytes() != 0 {
			out += fmtHeld(s.streamIdentifier, r.getNumBytes(), len(r.ordered), len(r.unordered), len(r.unorderedChunks), len(r.orderedMID), len(r.unorderedMID))
		}
	}
	return out
}

func accReadable(s *Stream) bool { return s.reassemblyQueue.isReadable() }

// accReasmLeftovers lists every chunk still reachable from the stream's reassembly queue.
type leftover struct {
	idata     bool
	unordered bool
	mid       uint32
	ssn       uint16
	tsn       uint32
	n         int
}

func accReasmLeftovers(s *Stream) []leftover {
	r := s.reassemblyQueue
	seen := map[*chunkPayloadData]bool{}
	var out []leftover
	add := func(c *chunkPayloadData) {
		if c != nil && !seen[c] {
			seen[c] = true
			out = append(out, leftover{idata: c.isIData(), unordered: c.unordered, mid: c.messageIdentifier, ssn: c.streamSequenceNumber, tsn: c.tsn, n: len(c.userData)})
		}
	}
	for _, set := range r.ordered {
		for _, c := range set.chunks {
			add(c)
		}
	}
	for _, set := range r.unordered {
		for _, c := range set.chunks {
			add(c)
		}
	}
	for _, c := range r.unorderedChunks {
		add(c)
	}
	for _, set := range r.orderedMID {
		for _, c := range set.chunks {
			add(c)
		}
	}
	for _, set := range r.unorderedMID {
		for _, c := range set.chunks {
			add(c)
		}
	}
	for _, k := range sortedKeys32(r.orderedMIDMap) {
		for _, c := range r.orderedMIDMap[k].chunks {
			add(c)
		}
	}
	for _, k := range sortedKeys32(r.unorderedMIDMap) {
		for _, c := range r.unorderedMIDMap[k].chunks {
			add(c)
		}
	}
	return out
}

func sortedKeys32(m map[uint32]*chunkSetMID) []uint32 {
	ks := make([]uint32, 0, len(m))
	for k := range m {
		ks = append(ks, k)
	}
	for i := 1; i < len(ks); i++ {
		for j := i; j > 0 && ks[j] < ks[j-1]; j-- {
			ks[j], ks[j-1] = ks[j-1], ks[j]
		}
	}
	return ks
}

func accHasStream(a *Association, sid uint16) bool { _, ok := a.streams[sid]; return ok }

func accStreamUnordered(s *Stream) bool { return s.unordered }

func accReconfigIdle(a *Association) bool {
	return len(a.reconfigs) == 0 && len(a.reconfigRequests) == 0
}

func accReconfigDescription(a *Association) string {
	return "out=" + itoa(len(a.reconfigs)) + " in=" + itoa(len(a.reconfigRequests))
}

func itoa(n int) string {
	if n == 0 {
		return "0"
	}
	s := ""
	neg := n < 0
	if neg {
		n = -n
	}
	for n > 0 {
		s = string(rune('0'+n%10)) + s
		n /= 10
	}
	if neg {
		s = "-" + s
	}
	return s
}

func accRTO(a *Association) float64 { return a.rtoMgr.rto }

func accSRTTVar(a *Association) (float64, float64) { return a.rtoMgr.srtt, a.rtoMgr.rttvar }

// accSetSeqBase moves a fresh stream's sequence spaces (sender counters and receiver cursors) to a
// base value, as if base-many messages had been exchanged before (C16: 2^32 messages cannot be sent).
func accSetSeqBase(s *Stream, ssn uint16, mid uint32) {
	s.sequenceNumber = ssn
	s.nextOrderedMID = mid
	s.nextUnorderedMID = mid
	s.reassemblyQueue.nextSSN = ssn
	s.reassemblyQueue.nextMID = mid
}

// accInflightActual sums the user bytes actually held by the chunks of the in-flight queue
// (acknowledged chunks have their payload emptied).
func accInflightActual(a *Association) int {
	n := 0
	q := a.inflightQueue.chunks
	for i := 0; i < q.Len(); i++ {
		n += len(q.At(i).userData)
	}
	return n
}

// accStreamRegistered: is this Stream object still the one the association knows under its identifier?
func accStreamRegistered(a *Association, s *Stream) bool {
	return a.streams[s.streamIdentifier] == s
}

// accReceiveWindowSanity checks the received-TSN tracker against itself: the count equals the bits
// set, and nothing is tracked beyond the window above the cumulative TSN.
func accReceiveWindowSanity(a *Association) string {
	q := a.payloadQueue
	n := 0
	for _, wd := range q.tsnBitmask {
		n += bits.OnesCount64(wd)
	}
	if n != q.chunkSize {
		return fmt.Sprintf("the received-TSN tracker counts %d chunks but %d bits are set (cum=%d tail=%d)", q.chunkSize, n, q.cumulativeTSN, q.tailTSN)
	}
	if q.chunkSize < 0 {
		return fmt.Sprintf("negative chunk count %d in the received-TSN tracker", q.chunkSize)
	}
	if q.chunkSize > 0 && (sna32LT(q.tailTSN, q.cumulativeTSN) || sna32GT(q.tailTSN, q.cumulativeTSN+q.maxTSNOffset)) {
		return fmt.Sprintf("the highest tracked TSN %d is outside the window (cum=%d, window %d)", q.tailTSN, q.cumulativeTSN, q.maxTSNOffset)
	}
	return ""
}

// accReassemblySanity: per stream, the queued-byte counter equals the bytes reachable from the queues.
func accReassemblySanity(a *Association) string {
	for sid, s := range a.streams {
		if c, t := accReasmCounter(s), accReasmTrueBytes(s); c != t {
			return fmt.Sprintf("stream %d: the reassembly byte counter is %d but %d bytes are queued", sid, c, t)
		}
	}
	return ""
}

// accAdversaryView: what an omniscient adversary reads before forging a packet for a.
func accAdversaryView(a *Association) (recvCum, ackPoint, nextTSN uint32, interleaving bool) {
	return a.peerLastTSN(), a.cumulativeTSNAckPoint, a.myNextTSN, a.localInterleaving && a.peerInterleaving
}

// accTSNTracked: is this TSN recorded as received above the cumulative point?
func accTSNTracked(a *Association, tsn uint32) bool { return a.payloadQueue.hasChunk(tsn) }

// accTSNTrackedOrBelow: recorded as received, or already covered by the cumulative point.
func accTSNTrackedOrBelow(a *Association, tsn uint32) bool {
	return a.payloadQueue.hasChunk(tsn) || sna32LTE(tsn, a.payloadQueue.getcumulativeTSN())
}

// accLastTSNReceived: the highest TSN recorded as received.
func accLastTSNReceived(a *Association) (uint32, bool) { return a.payloadQueue.getLastTSNReceived() }
