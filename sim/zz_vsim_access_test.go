package sctp

// White-box access. This is the only harness file that names unexported
// identifiers of pion/sctp; all reads happen in the driver at quiescent points
// (no task is running), so no lock is taken.

import "sync/atomic"

func accBufferedAmount(a *Association) int {
	return a.pendingQueue.getNumBytes() + a.inflightQueue.getNumBytes()
}

func accState(a *Association) uint32 { return atomic.LoadUint32(&a.state) }

func accStateName(a *Association) string { return getAssociationStateString(accState(a)) }

func accStreamBuffered(s *Stream) uint64 { return s.bufferedAmount }

func accInflight(a *Association) (size int, bytes int) {
	return a.inflightQueue.size(), a.inflightQueue.getNumBytes()
}

func accPending(a *Association) (size int, bytes int) {
	return a.pendingQueue.size(), a.pendingQueue.getNumBytes()
}

func accTimers(a *Association) string {
	return "t3=" + b2s(a.t3RTX.state == rtxTimerStarted) + " t2=" + b2s(a.t2Shutdown.state == rtxTimerStarted) +
		" treconf=" + b2s(a.tReconfig.state == rtxTimerStarted) + " ack=" + b2s(a.ackTimer.state == ackTimerStarted)
}

func b2s(b bool) string {
	if b {
		return "1"
	}
	return "0"
}
