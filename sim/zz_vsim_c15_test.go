package sctp

// C15: buffered-amount accounting is exact and the low-threshold callback fires
// for each downward crossing, without internal locks held.

import (
	"fmt"
	"strings"
	"time"
)

func init() {
	registerScenario("C15b", scenarioBufferedLow)
}

// checkBufferedIdle (all data-path runs): at an idle point (no task parked, both read loops
// waiting for input) every stream's BufferedAmount equals written - acknowledged bytes, and
// the association's figure equals the sum.
func (m *wireMon) checkBufferedIdle() {
	w := m.w
	if m.x == nil || len(w.sim.parked) != 0 || w.net.inFlight() != 0 && false {
		return
	}
	for side := 0; side < 2; side++ {
		ep := w.eps[side]
		if ep.assoc == nil || accState(ep.assoc) != established {
			continue
		}
		if len(m.s[side].pendingAck) != 0 {
			return
		}
		total := 0
		unregistered := false
		inProgress := false // a (blocking) write has been counted by its stream but is not queued yet
		for _, q := range m.x.odd {
			if q.from == side && !q.done {
				inProgress = true
			}
		}
		for _, d := range m.x.dirs {
			if d.from != side || d.tx == nil {
				continue
			}
			written := 0
			for _, q := range d.msgs {
				if !q.done || q.err == nil {
					written += q.size
				}
				if !q.done {
					inProgress = true
				}
			}
			acked := m.s[side].ackedBytes[d.sid]
			model := written - acked
			got := int(accStreamBuffered(d.tx.s))
			total += got
			m.count("c15.idle-stream-checked")
			if got != model && !accStreamRegistered(ep.assoc, d.tx.s) && got > model {
				// the stream identifier was reset (closed by both ends) before the last acknowledgements
				// arrived: the association no longer finds the Stream object to release the bytes
				unregistered = true
				w.violate("C15", "closed-stream-buffered-stuck", "%s stream %d: BufferedAmount=%d at an idle point although written %d - acknowledged %d = %d; the stream was reset and removed from the association before its data was acknowledged", ep.name, d.sid, got, written, acked, model)
				if w.stopped() {
					return
				}
				continue
			}
			if got != model {
				w.violate("C15", "stream-buffered-mismatch", "%s stream %d: BufferedAmount=%d at an idle point, but written %d - acknowledged %d = %d", ep.name, d.sid, got, written, acked, model)
				return
			}
		}
		// (scenarios that drive their streams themselves, like the close / re-open cycles, do not list them in x.dirs)
		psz, pb := accPending(ep.assoc)
		isz, ib := accInflight(ep.assoc)
		if real := accInflightActual(ep.assoc); real != ib {
			w.violate("C15", "inflight-counter-mismatch", "%s: the in-flight byte counter is %d but the %d chunks in flight hold %d unacknowledged user bytes", ep.name, ib, isz, real)
			return
		}
		if a := accBufferedAmount(ep.assoc); a != total && len(m.x.tails) == 0 && len(m.x.dirs) > 0 && !inProgress && !unregistered {
			w.violate("C15", "assoc-buffered-mismatch", "%s: Association.BufferedAmount=%d (pending %d chunks/%dB, in flight %d chunks/%dB) but the streams add up to %d", ep.name, a, psz, pb, isz, ib, total)
			return
		}
	}
}

type lowStream struct {
	sid       uint16
	from      int
	th        uint64
	sizes     []int
	expected  int
	callbacks int
	badValue  string
	tx        *simStream
	done      bool
	closeLast bool // Close() right after the last write
}

func scenarioBufferedLow(w *world) {
	cfg := genConfig(w, cfgOpts{wrapBias: false, maxLossPPM: 200000})
	w.setup(cfg)
	x := newXfer(w)
	mon := w.installMonitor(x)
	w.net.faultsOn = false
	if !w.connect(120*time.Second) || w.eps[0].connErr != nil || w.eps[1].connErr != nil {
		if w.viol == nil && w.aborted == "" {
			w.violate("C04", "no-faults-handshake", "fault-free handshake failed: %v / %v", w.eps[0].connErr, w.eps[1].connErr)
		}
		return
	}
	w.net.faultsOn = true
	tp := w.wtape
	maxMsg := 65536
	for _, ep := range w.eps {
		if m := int(ep.assoc.MaxMessageSize()); m > maxMsg {
			maxMsg = m
		}
	}
	x.bufSize = maxMsg + 64
	n := 1 + tp.intn(4)
	var streams []*lowStream
	for i := 0; i < n; i++ {
		ls := &lowStream{sid: uint16(i + 1), from: tp.intn(2)}
		ls.th = pick[uint64](tp, 0, 0, 1, 100, 1000, 5000, 1<<40)
		ls.closeLast = tp.intn(3) == 0
		k := 1 + tp.intn(8)
		rb := int(w.cfg.Side[1-ls.from].RecvBuf)
		if rb == 0 {
			rb = 1024 * 1024
		}
		lim := rb / 2 / (n + 2)
		for j := 0; j < k; j++ {
			sz := pick(tp, 1, 2, 50, 500, 1200, 3000, 9000, 20000)
			sz += tp.intn(50)
			if sz > lim {
				sz = 1 + lim/2
			}
			if m := int(w.eps[ls.from].assoc.MaxMessageSize()); sz > m {
				sz = m
			}
			ls.sizes = append(ls.sizes, sz)
			if uint64(sz) > ls.th {
				ls.expected++
			}
		}
		streams = append(streams, ls)
	}
	// readers on both sides for every stream (and the auxiliary stream 0)
	for _, ep := range w.eps {
		ep := ep
		w.sim.spawnClient("accept."+ep.name, ep.name, func() {
			for {
				s, err := ep.assoc.AcceptStream()
				if err != nil {
					return
				}
				x.gotStream(ep, s.StreamIdentifier(), s)
			}
		})
	}
	st := map[*xferDir]*dirState{}
	x.onRead = func(d *xferDir, r *readRec) { checkRead(w, st, d, r) }
	for _, ls := range streams {
		ls := ls
		ep := w.eps[ls.from]
		d := &xferDir{sid: ls.sid, from: ls.from, relType: ReliabilityTypeReliable}
		aux := &xferDir{sid: 100 + ls.sid, from: ls.from, relType: ReliabilityTypeReliable}
		x.dirs = append(x.dirs, d, aux)
		w.sim.spawnClient(fmt.Sprintf("writer.%s.%d", ep.name, ls.sid), ep.name, func() {
			s, err := ep.assoc.OpenStream(ls.sid, PayloadTypeWebRTCBinary)
			if err != nil {
				return
			}
			as, err := ep.assoc.OpenStream(100+ls.sid, PayloadTypeWebRTCBinary)
			if err != nil {
				return
			}
			ss := x.gotStream(ep, ls.sid, s)
			ass := x.gotStream(ep, 100+ls.sid, as)
			d.tx, aux.tx, ls.tx = ss, ass, ss
			s.SetBufferedAmountLowThreshold(ls.th)
			s.OnBufferedAmountLow(func() {
				// runs on the association's read loop: it must not hold any internal lock
				cur := w.sim.cur
				if cur != nil && cur.nlocks != 0 {
					w.violate("C15", "callback-with-lock-held", "%s stream %d: OnBufferedAmountLow callback invoked while the calling goroutine holds %d internal lock(s)", ep.name, ls.sid, cur.nlocks)
				}
				ls.callbacks++
				w.probe("low-threshold-callback")
				// call back into the stream and the association
				// (the value may already be above the threshold again: the callback runs without
				// locks, and the writer may have written meanwhile)
				_ = s.BufferedAmount()
				_ = ep.assoc.BufferedAmount()
				s.SetBufferedAmountLowThreshold(ls.th)
				_ = s.BufferedAmountLowThreshold()
				m := w.newMsg(ass, 1, false)
				x.index[m.ppi] = m
				aux.msgs = append(aux.msgs, m)
				w.write(ass, m)
			})
			for i, sz := range ls.sizes {
				m := w.newMsg(ss, sz, false)
				x.index[m.ppi] = m
				d.msgs = append(d.msgs, m)
				w.write(ss, m)
				closed := false
				if ls.closeLast && i == len(ls.sizes)-1 && m.err == nil {
					// the stream is closed with the last message still unacknowledged: the crossing that its
					// acknowledgement produces on this (closing) Stream object must be reported like any other
					_ = s.Close()
					closed = true
					w.probe("closed-with-data-outstanding")
				}
				// wait until everything written so far has been acknowledged
				waited := time.Duration(0)
				for s.BufferedAmount() != 0 {
					h := vsimBlocking("client.sleep")
					time.Sleep(10 * time.Millisecond)
					vsimWoke(h)
					if w.tornDown {
						return
					}
					if waited += 10 * time.Millisecond; closed && waited > 20*time.Second && !accStreamRegistered(ep.assoc, s) {
						// the reset handshake overtook the acknowledgement: the bytes are never released on this
						// object (recorded finding KF8), so there is no crossing to report either
						if uint64(sz) > ls.th {
							ls.expected--
						}
						w.probe("closed-stream-never-released")
						break
					}
					if waited > 30*time.Minute {
						// (the phases of this scenario, faults included, are over long before; KF8 is handled above)
						w.violate("C15", "buffered-amount-never-drained", "%s stream %d (closed=%v, still registered=%v): BufferedAmount() is still %d thirty minutes after the last write although the peer is reachable; the association figure is %d", ep.name, ls.sid, closed, accStreamRegistered(ep.assoc, s), s.BufferedAmount(), ep.assoc.BufferedAmount())
						return
					}
				}
			}
			d.writerDone, aux.writerDone = true, true
			ls.done = true
		})
	}
	allDone := func() bool {
		for _, ls := range streams {
			if !ls.done {
				return false
			}
		}
		return true
	}
	phase := time.Duration(5+tp.intn(40)) * time.Second
	w.run(allDone, w.now()+phase)
	if w.stopped() {
		return
	}
	w.net.heal()
	rmax := rtoMaxOf(w.cfg.Side[0])
	if r := rtoMaxOf(w.cfg.Side[1]); r > rmax {
		rmax = r
	}
	total := 0
	for _, ls := range streams {
		for _, n := range ls.sizes {
			total += n
		}
	}
	lat := time.Duration(w.cfg.Fault[0].LatencyUs+w.cfg.Fault[0].JitterUs) * time.Microsecond
	minMTU := 1191
	for _, s := range w.cfg.Side {
		if s.MTU != 0 && int(s.MTU) < minMTU {
			minMTU = int(s.MTU)
		}
	}
	nmsgs := 0
	for _, ls := range streams {
		nmsgs += len(ls.sizes)
	}
	bound := time.Duration(nmsgs+1)*(6*rmax) + time.Duration(total/(minMTU-32)+1)*(2*lat+200*time.Millisecond)*2
	r := w.run(func() bool { return allDone() && x.allSettled() && x.drained() }, w.now()+bound)
	if w.stopped() {
		return
	}
	if r != stopCond {
		for _, ls := range streams {
			if ls.tx == nil || ls.done {
				continue
			}
			ep := w.eps[ls.from]
			if _, inflight := accInflight(ep.assoc); inflight == 0 && ep.assoc.BufferedAmount() == 0 && ls.tx.s.BufferedAmount() != 0 {
				// everything this endpoint sent has been acknowledged, yet the stream still counts bytes: its writer
				// is waiting for a figure that will never come down
				w.violate("C15", "buffered-amount-never-drained", "%s stream %d: BufferedAmount() is still %d %v after the heal although nothing is pending or in flight at the association (its figure is 0)", ep.name, ls.sid, ls.tx.s.BufferedAmount(), bound)
				return
			}
		}
		w.violate("C02", "stall", "buffered-amount workload did not finish %v after the heal: %s", bound, w.describeStates())
		return
	}
	w.quiesce(2 * time.Second)
	if w.stopped() {
		return
	}
	for _, ls := range streams {
		if ls.badValue != "" {
			w.violate("C15", "callback-above-threshold", "%s stream %d: %s", w.eps[ls.from].name, ls.sid, ls.badValue)
			return
		}
		if ls.callbacks != ls.expected {
			w.violate("C15", "callback-count", "%s stream %d: threshold %d, single-message bursts %v (each drained to zero before the next): %d downward crossings, %d callbacks", w.eps[ls.from].name, ls.sid, ls.th, ls.sizes, ls.expected, ls.callbacks)
			return
		}
	}
	// underflow alarm of the library
	vsimHLock(&w.logMu)
	for _, l := range w.logs {
		if strings.Contains(l.msg, "released buffer size") {
			vsimHUnlock(&w.logMu)
			w.violate("C15", "underflow", "the library clamped a buffered amount below zero: %s", l.msg)
			return
		}
	}
	vsimHUnlock(&w.logMu)
	x.finalChecks(mon)
}

// dBufferedAfterReset: A writes one message and closes the stream at once; B closes its side on EOF.
// The reset handshake completes before the delayed SACK for the message arrives. Witness of KF8.
func dBufferedAfterReset(w *world) {
	x, mon, ok := directedStart(w, directedConfig(w, false))
	if !ok {
		return
	}
	_ = mon
	d := &xferDir{sid: 1, from: 0, relType: ReliabilityTypeReliable, sizes: []int{10}, preopen: true}
	x.dirs = []*xferDir{d}
	x.start()
	w.sim.spawnClient("closer.A", "A", func() {
		for !d.writerDone {
			h := vsimBlocking("client.sleep")
			time.Sleep(time.Millisecond)
			vsimWoke(h)
		}
		_ = d.tx.s.Close()
	})
	w.sim.spawnClient("closer.B", "B", func() {
		for d.rx == nil || !d.rx.readerDone {
			h := vsimBlocking("client.sleep")
			time.Sleep(time.Millisecond)
			vsimWoke(h)
		}
		_ = d.rx.s.Close()
	})
	w.run(func() bool { return false }, w.now()+3*time.Second)
	if w.stopped() {
		return
	}
	mon.checkBufferedIdle()
	w.net.heal()
	w.quiesce(time.Second)
}

func init() { registerScenario("D_buffered_after_reset", dBufferedAfterReset) }
