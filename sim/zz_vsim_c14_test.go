package sctp

// C14: stream close is ordered after the stream's data; identifiers can be reused.

import (
	"errors"
	"fmt"
	"io"
	"time"
)

func init() {
	registerScenario("C14", scenarioReset)
}

type resetStream struct {
	sid       uint16
	unordered bool
	initiator int // side that closes first
	// per incarnation
	dirs [2]*xferDir // dirs[from]
	eof  [2]bool     // eof[side]: reader on side saw EOF
	readErr [2]error
	closed  [2]bool
	writeAfterClose [2]*msgRec
	openDone [2]bool
}

func scenarioReset(w *world) {
	cfg := genConfig(w, cfgOpts{wrapBias: true, maxLossPPM: 250000})
	shifted := seqShiftConfig(w, cfg)
	w.setup(cfg)
	if shifted {
		w.sim.noPerm = true
	}
	x := newXfer(w)
	mon := w.installMonitor(x)
	w.net.faultsOn = false
	if !w.connect(120*time.Second) || w.eps[0].connErr != nil || w.eps[1].connErr != nil {
		if w.viol == nil && w.aborted == "" {
			w.violate("C04", "no-faults-handshake", "fault-free handshake failed: %v / %v", w.eps[0].connErr, w.eps[1].connErr)
		}
		return
	}
	w.net.faultsOn = true
	tp := w.wtape
	maxMsg := 65536
	for _, ep := range w.eps {
		if m := int(ep.assoc.MaxMessageSize()); m > maxMsg {
			maxMsg = m
		}
	}
	x.bufSize = maxMsg + 64
	// The side that closes first opens the stream; the other side only ever obtains it
	// through AcceptStream (as a data channel does), so that there is exactly one Stream
	// object per side and incarnation.
	onAccept := map[int]map[uint16]func(s *Stream){0: {}, 1: {}}
	for _, ep := range w.eps {
		ep := ep
		w.sim.spawnClient("accept."+ep.name, ep.name, func() {
			for {
				s, err := ep.assoc.AcceptStream()
				if err != nil {
					return
				}
				sid := s.StreamIdentifier()
				w.apiEvent(ep, "accept", fmt.Sprintf("sid=%d", sid))
				f := onAccept[ep.side][sid]
				if _, replayed := mon.s[ep.side].replayedReset[sid]; f == nil && replayed {
					// recorded finding KF6: a replayed reset request removed the new incarnation, whose next
					// DATA chunk then created (and announced) the stream once more
					w.violate("C14", "reset-by-replayed-request", "%s: stream %d was announced by AcceptStream a second time after a reset request whose sequence number this endpoint had already performed was delivered again", ep.name, sid)
					return
				}
				if f == nil {
					w.violate("C14", "unexpected-accept", "%s: AcceptStream returned stream %d although no new incarnation of it was opened by the peer", ep.name, sid)
					return
				}
				delete(onAccept[ep.side], sid)
				f(s)
			}
		})
	}
	nStreams := 1 + tp.intn(4)
	if thorough() {
		nStreams = 1 + tp.intn(8)
	}
	var streams []*resetStream
	used := map[uint16]bool{}
	for i := 0; i < nStreams; i++ {
		sid := uint16(tp.intn(10))
		if used[sid] {
			continue
		}
		used[sid] = true
		streams = append(streams, &resetStream{sid: sid, unordered: tp.intn(3) == 0, initiator: tp.intn(2)})
	}
	cycles := 1 + tp.intn(3)
	if thorough() {
		cycles = 1 + tp.intn(5)
	}
	if c := w.params["cycles"]; c > 0 {
		cycles = c
	}
	if ms := w.params["dup_reset_late_ms"]; ms > 0 {
		// directed witness: the first stream-reset request of A is duplicated, the copy arrives late
		w.net.planDelayBy = time.Duration(ms) * time.Millisecond
		first := true
		w.net.filter = func(dir int, idx int, p *wirePacket) planAction {
			if dir == 0 && first {
				for _, c := range p.chunks {
					if c.typ == wtRECONFIG && len(c.reconfig) > 0 && c.reconfig[0].typ == 13 {
						first = false
						w.probe("directed-dup-reset")
						return planDupLate
					}
				}
			}
			return planNone
		}
	}
	rmax := rtoMaxOf(w.cfg.Side[0])
	if r := rtoMaxOf(w.cfg.Side[1]); r > rmax {
		rmax = r
	}
	st := map[*xferDir]*dirState{}
	frag := func(side int) int {
		mtu := int(w.cfg.Side[side].MTU)
		if mtu == 0 {
			mtu = 1191
		}
		return mtu - 32
	}
	for inc := 0; inc < cycles; inc++ {
		totalBytes := 0
		for _, rs := range streams {
			rs := rs
			rs.eof, rs.closed, rs.openDone = [2]bool{}, [2]bool{}, [2]bool{}
			if inc > 0 && tp.intn(2) == 0 {
				rs.initiator = 1 - rs.initiator
			}
			rs.readErr = [2]error{}
			rs.writeAfterClose = [2]*msgRec{}
			for from := 0; from < 2; from++ {
				d := &xferDir{sid: rs.sid, from: from, unordered: rs.unordered, relType: ReliabilityTypeReliable}
				d.dcepTail = rs.unordered && tp.intn(2) == 0
				n := tp.intn(8)
				if thorough() {
					n = tp.intn(40)
				}
				if from == rs.initiator && n == 0 {
					n = 1 // the peer learns about the stream from its first message
				}
				rb := int(w.cfg.Side[1-from].RecvBuf)
				if rb == 0 {
					rb = 1024 * 1024
				}
				lim := rb / 2 / (2*len(streams) + 1)
				for j := 0; j < n; j++ {
					sz := sizeMix(tp, frag(from), int(w.eps[from].assoc.MaxMessageSize()), false)
					if sz > lim {
						sz = 1 + lim/2
					}
					d.sizes = append(d.sizes, sz)
					totalBytes += sz
				}
				rs.dirs[from] = d
			}
			for side := 0; side < 2; side++ {
				side := side
				ep := w.eps[side]
				out := rs.dirs[side]  // this side sends
				in := rs.dirs[1-side] // this side receives
				body := func(s *Stream) {
					ss := &simStream{ep: ep, sid: rs.sid, inc: inc, s: s, openSeq: w.evSeq, openAt: w.now()}
					out.tx, in.rx = ss, ss
					s.SetReliabilityParams(rs.unordered, ReliabilityTypeReliable, 0)
					rs.openDone[side] = true
					// reader
					w.sim.spawnClient(fmt.Sprintf("reader.%s.%d.%d", ep.name, rs.sid, inc), ep.name, func() {
						buf := make([]byte, x.bufSize)
						for {
							r := w.read(ss, buf, x.index)
							if r.err != nil {
								rs.readErr[side] = r.err
								if errors.Is(r.err, io.EOF) {
									rs.eof[side] = true
									// the peer must have written everything before closing: all of it was read
									acc := 0
									for _, m := range in.msgs {
										if m.inc == inc && m.done && m.err == nil {
											acc++
										}
									}
									got := 0
									for _, q := range ss.reads {
										if q.err == nil {
											got++
										}
									}
									// (the replayed request may have been read from the transport just before the new incarnation was obtained
									// and be processed just after: same virtual instant)
									if seq, ok := mon.s[side].replayedReset[rs.sid]; ok && (seq >= ss.openSeq || mon.s[side].replayedResetAt[rs.sid] >= ss.openAt) && (!in.writerDone || !rs.closed[1-side] || got != acc) {
										w.violate("C14", "reset-by-replayed-request", "%s stream %d inc %d: reader got EOF (peer closed=%v, %d of %d messages read) after a reset request was delivered whose sequence number this endpoint had already performed", ep.name, rs.sid, inc, rs.closed[1-side], got, acc)
									} else if !in.writerDone || !rs.closed[1-side] {
										w.violate("C14", "eof-before-close", "%s stream %d inc %d: reader got EOF although the peer has not closed the stream", ep.name, rs.sid, inc)
									} else if got != acc {
										w.violate("C14", "eof-before-data", "%s stream %d inc %d: reader got EOF after %d messages, the peer had written %d before closing", ep.name, rs.sid, inc, got, acc)
									}
								}
								return
							}
							if rs.eof[side] {
								w.violate("C14", "data-after-eof", "%s stream %d inc %d: data after EOF", ep.name, rs.sid, inc)
							}
							checkRead(w, st, in, r)
						}
					})
					// writer
					for i, n := range out.sizes {
						// on an unordered stream the last messages before Close are sometimes data-channel control
						// messages, which are ordered by exception: the end of the stream must come after them too
						dcep := rs.unordered && out.dcepTail && i >= len(out.sizes)-2
						if dcep && n < 8 {
							n = 8 + n
						}
						m := w.newMsg(ss, n, dcep)
						m.inc = inc
						m.unordered = rs.unordered && !dcep
						if dcep {
							x.index[uint32(m.id)|0x80000000] = m
						} else {
							x.index[m.ppi] = m
						}
						out.msgs = append(out.msgs, m)
						w.write(ss, m)
					}
					out.writerDone = true
					if side != rs.initiator {
						// the responder closes its direction once it has seen the peer's reset (as a data channel does)
						for !rs.eof[side] {
							h := vsimBlocking("client.sleep")
							time.Sleep(20 * time.Millisecond)
							vsimWoke(h)
							if w.viol != nil || w.tornDown {
								return
							}
						}
					}
					if ms := w.params["hold_open_ms"]; ms > 0 && inc > 0 && side == rs.initiator {
						h := vsimBlocking("client.sleep")
						time.Sleep(time.Duration(ms) * time.Millisecond)
						vsimWoke(h)
					}
					err := s.Close()
					rs.closed[side] = true
					w.apiEvent(ep, "close", fmt.Sprintf("sid=%d inc=%d err=%v", rs.sid, inc, err))
					// a write after Close must fail and send nothing
					m := w.newMsg(ss, 10, false)
					m.inc = inc
					x.index[m.ppi] = m
					rs.writeAfterClose[side] = m
					w.write(ss, m)
					if m.err == nil || m.n != 0 {
						w.violate("C14", "write-after-close-accepted", "%s stream %d inc %d: WriteSCTP after Close returned n=%d err=%v", ep.name, rs.sid, inc, m.n, m.err)
					}
				}
				if side == rs.initiator {
					w.sim.spawnClient(fmt.Sprintf("stream.%s.%d.%d", ep.name, rs.sid, inc), ep.name, func() {
						s, err := ep.assoc.OpenStream(rs.sid, PayloadTypeWebRTCBinary)
						w.apiEvent(ep, "open", fmt.Sprintf("sid=%d inc=%d err=%v", rs.sid, inc, err))
						if err != nil {
							w.violate("C14", "reopen-failed", "%s: OpenStream(%d) for incarnation %d failed: %v", ep.name, rs.sid, inc, err)
							return
						}
						body(s)
					})
				} else {
					onAccept[side][rs.sid] = func(s *Stream) {
						w.sim.spawnClient(fmt.Sprintf("stream.%s.%d.%d", ep.name, rs.sid, inc), ep.name, func() { body(s) })
					}
				}
			}
		}
		// fault phase then heal, then bounded completion of this incarnation
		phase := time.Duration(2+tp.intn(30)) * time.Second
		done := func() bool {
			for _, rs := range streams {
				if !(rs.eof[0] && rs.eof[1] && rs.closed[0] && rs.closed[1]) {
					return false
				}
			}
			return accReconfigIdle(w.eps[0].assoc) && accReconfigIdle(w.eps[1].assoc)
		}
		w.net.faultsOn = true
		w.run(done, w.now()+phase)
		if w.stopped() {
			return
		}
		savedCfg := w.net.cfg
		w.net.faultsOn = false
		w.net.flushSwap()
		lat := time.Duration(w.cfg.Fault[0].LatencyUs+w.cfg.Fault[0].JitterUs) * time.Microsecond
		minMTU := 1191
		for _, s := range w.cfg.Side {
			if s.MTU != 0 && int(s.MTU) < minMTU {
				minMTU = int(s.MTU)
			}
		}
		bound := 8*rmax + time.Duration(totalBytes/(minMTU-32)+1)*(2*lat+200*time.Millisecond)*2
		r := w.run(done, w.now()+bound)
		if w.stopped() {
			return
		}
		if r != stopCond {
			desc := ""
			for _, rs := range streams {
				desc += fmt.Sprintf("[sid=%d eof=%v closed=%v readErr=%v/%v] ", rs.sid, rs.eof, rs.closed, rs.readErr[0], rs.readErr[1])
			}
			for _, ep := range w.eps {
				desc += fmt.Sprintf("%s: state=%s buffered=%d reconfigs=%s %s; ", ep.name, accStateName(ep.assoc), accBufferedAmount(ep.assoc), accReconfigDescription(ep.assoc), accTimers(ep.assoc))
			}
			w.violate("C14", "reset-not-completed", "incarnation %d: stream resets not completed %v after the network healed: %s", inc, bound, desc)
			return
		}
		// per incarnation end checks: everything written before Close was delivered, rejected writes left no trace
		for _, rs := range streams {
			for from := 0; from < 2; from++ {
				d := rs.dirs[from]
				for _, m := range d.msgs {
					if m.err == nil && m.delivered != 1 {
						w.violate("C14", "lost-before-eof", "stream %d inc %d: message %d written before Close was delivered %d times", rs.sid, inc, m.id, m.delivered)
					}
				}
				if m := rs.writeAfterClose[from]; m != nil {
					for _, ti := range mon.s[from].sent {
						if ti.msg == m {
							w.violate("C14", "write-after-close-sent", "stream %d inc %d: data of a write rejected after Close appeared on the wire (TSN %d)", rs.sid, inc, ti.tsn)
						}
					}
				}
				// fresh sequence numbers: the first message of this incarnation starts at SSN/MID 0
				if len(d.msgs) > 0 {
					first := d.msgs[0]
					for _, ti := range mon.s[from].sent {
						if ti.msg == first && ti.b {
							if ti.idata && ti.mid != 0 {
								w.violate("C14", "sequence-not-reset", "stream %d inc %d: first message of the incarnation was sent with MID %d", rs.sid, inc, ti.mid)
							}
							if !ti.idata && !ti.u && ti.ssn != 0 {
								w.violate("C14", "sequence-not-reset", "stream %d inc %d: first message of the incarnation was sent with SSN %d", rs.sid, inc, ti.ssn)
							}
						}
					}
				}
			}
		}
		if w.viol != nil {
			return
		}
		w.net.cfg = savedCfg
		w.probe("reset-cycle-completed")
	}
	w.net.heal()
	w.quiesce(5 * time.Second)
}
