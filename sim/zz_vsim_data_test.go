package sctp

// Data-path scenario family. One generator, several flavours; all oracles are
// evaluated in every run, each check reports the classes of its own property.
//
//	C01 reliable ordered, C02 stalls, C05 SACK truth, C06 policies, C07 abandoned
//	messages, C10 windows, C11 receive accounting, C12/C13 emission rules, C15
//	buffered amount (idle-point model), C17 kinds.

import (
	"fmt"
	"time"
)

func init() {
	for _, f := range []string{"C01", "C02", "C05", "C06", "C06f", "C07", "C10", "C11", "C12", "C13e", "C15", "C17w", "C18", "smoke"} {
		f := f
		registerScenario(f, func(w *world) { scenarioData(w, f) })
	}
}

type dirState struct {
	lastIdx     int // index in d.msgs of the last ordered message read
	lastDcepIdx int
	nOK         int
}

// checkRead is the RefStream oracle evaluated at every successful read.
func checkRead(w *world, st map[*xferDir]*dirState, d *xferDir, r *readRec) {
	if d == nil {
		return
	}
	ds := st[d]
	if ds == nil {
		ds = &dirState{lastIdx: -1, lastDcepIdx: -1}
		st[d] = ds
	}
	prop := "C06"
	if d.reliable() && !d.unordered {
		prop = "C01"
	}
	where := fmt.Sprintf("stream %d (%s->%s, unordered=%v rel=%d/%d)", d.sid, w.eps[d.from].name, w.eps[1-d.from].name, d.unordered, d.relType, d.relVal)
	if r.truncated {
		w.violate("C18", "short-buffer-truncated", "%s: a read into a %d-byte buffer returned the first %d bytes of a longer message with err=nil instead of ErrShortBuffer (%s)", where, r.bufLen, r.n, r.bad)
		return
	}
	if r.bad != "" {
		w.violate(prop, "altered", "%s: read #%d: %s", where, ds.nOK, r.bad)
		return
	}
	m := r.msg
	if m.from != d.from || m.sid != d.sid {
		w.violate(prop, "altered", "%s: read returned message %d which was written on stream %d by %s", where, m.id, m.sid, w.eps[m.from].name)
		return
	}
	if m.delivered > 1 {
		w.violate(prop, "duplicated", "%s: message %d (size %d) delivered %d times", where, m.id, m.size, m.delivered)
		return
	}
	idx := -1
	for i, q := range d.msgs {
		if q == m {
			idx = i
		}
	}
	ds.nOK++
	if d.flip != nil {
		// mixed ordering on one stream: the ordered messages (DCEP included) form one sequence
		if !m.unordered || m.dcep {
			if idx <= ds.lastIdx {
				w.violate("C06", "reordered", "%s: ordered message %d (write #%d) delivered after ordered write #%d on a stream with mixed ordering", where, m.id, idx, ds.lastIdx)
				return
			}
			ds.lastIdx = idx
		}
		return
	}
	if !d.unordered {
		if idx <= ds.lastIdx {
			w.violate(prop, "reordered", "%s: message %d (write #%d) delivered after write #%d", where, m.id, idx, ds.lastIdx)
			return
		}
		if d.reliable() {
			// exactly the next accepted write
			for j := ds.lastIdx + 1; j < idx; j++ {
				q := d.msgs[j]
				if q.done && q.err != nil {
					continue
				}
				w.violate("C01", "lost-or-reordered", "%s: read #%d returned message %d (size %d) but message %d (size %d) was accepted earlier and not delivered", where, ds.nOK-1, m.id, m.size, q.id, q.size)
				return
			}
		}
		ds.lastIdx = idx
	} else if m.dcep {
		if idx <= ds.lastDcepIdx {
			w.violate("C06", "dcep-reordered", "%s: DCEP message %d (write #%d) delivered after DCEP write #%d", where, m.id, idx, ds.lastDcepIdx)
			return
		}
		ds.lastDcepIdx = idx
	}
}

func scenarioData(w *world, flavor string) {
	o := cfgOpts{wrapBias: true, maxLossPPM: 250000}
	xo := xferOpts{maxStreams: 4, maxSID: 9, maxMsgs: 12, maxBytes: 300000, reliableOrderedOnly: true}
	if thorough() {
		xo.maxStreams, xo.maxMsgs, xo.maxBytes = 8, 60, 2000000
	}
	partition := false
	tail := false
	switch flavor {
	case "C02":
		xo.cbWrites = true
		o.smallBuffers = w.ctape.intn(2) == 0
		o.maxLossPPM = 500000
		xo.slowReaders = true
		partition = w.wtape.intn(2) == 0
	case "C05":
		xo.reliableOrderedOnly = w.ctape.intn(3) != 0
		xo.dcep = true
		o.maxLossPPM = 300000
	case "C06", "C07":
		xo.reliableOrderedOnly = false
		xo.dcep = true
		o.maxLossPPM = 600000
		tail = true
	case "C06f":
		// partially reliable streams that carry mostly fragmented messages under heavy loss: a message is
		// partly in flight, partly pending for long stretches (KF1) and becomes abandoned while marks are set
		xo.reliableOrderedOnly = false
		xo.prFragments = true
		xo.maxMsgs = 30
		o.maxLossPPM = 600000
		tail = true
	case "C10":
		xo.cbWrites = true
		o.smallBuffers = w.ctape.intn(2) == 0
		xo.slowReaders = true
		xo.reliableOrderedOnly = w.ctape.intn(2) == 0
		o.blockWriteOK = true
	case "C11", "C15":
		o.smallBuffers = w.ctape.intn(2) == 0
		xo.slowReaders = w.ctape.intn(2) == 0
		xo.reliableOrderedOnly = false
		xo.dcep = true
		tail = true
	case "C18":
		o.smallBuffers = w.ctape.intn(2) == 0
		o.blockWriteOK = true
		xo.slowReaders = w.ctape.intn(2) == 0
		xo.reliableOrderedOnly = w.ctape.intn(3) != 0
		xo.deadlines = true
		xo.oddWrites = true
		xo.dcep = true
	case "C12", "C13e", "C17w":
		xo.reliableOrderedOnly = w.ctape.intn(2) == 0
		xo.dcep = true
	}
	cfg := genConfig(w, o)
	if flavor == "smoke" {
		cfg = &runConfig{StepBudget: 400000}
		cfg.Side[0].Role, cfg.Side[1].Role = "client", "server"
	}
	w.setup(cfg)
	x := newXfer(w)
	mon := w.installMonitor(x)
	// the handshake is not under test here: no faults until established
	w.net.faultsOn = false
	if !w.connect(120*time.Second) || w.eps[0].connErr != nil || w.eps[1].connErr != nil {
		if w.viol == nil && w.aborted == "" {
			w.violate("C04", "no-faults-handshake", "fault-free handshake failed: %v / %v", w.eps[0].connErr, w.eps[1].connErr)
		}
		return
	}
	w.net.faultsOn = true

	x.dirs = genDirs(w, xo)
	runXfer(w, x, mon, partition, tail)
}

// runXfer executes a prepared transfer plan: fault phase, heal, bounded
// completion, end-state oracles. Shared by the seeded flavours and by the
// directed (witness) scenarios.
func runXfer(w *world, x *xfer, mon *wireMon, partition, tail bool) {
	// workload precondition (DESIGN C02): the messages that can be in progress at the
	// same time fit in half the receiver's buffer (SCTP has no partial delivery here)
	for _, d := range x.dirs {
		rb := int(w.cfg.Side[1-d.from].RecvBuf)
		if rb == 0 {
			rb = 1024 * 1024
		}
		lim := rb / 2 / (len(x.dirs) + 1)
		for i := range d.sizes {
			if d.sizes[i] > lim {
				d.sizes[i] = 1 + lim/2
				if d.dcep != nil && d.sizes[i] < 8 {
					d.dcep[i] = false
				}
			}
		}
	}
	// completeness of SACKs is only asserted where nothing can legitimately be refused
	for side := 0; side < 2; side++ {
		total := 0
		for _, d := range x.dirs {
			if d.from != side {
				for _, n := range d.sizes {
					total += n
				}
			}
		}
		rb := int(w.cfg.Side[side].RecvBuf)
		if rb == 0 {
			rb = 1024 * 1024
		}
		mon.s[side].ample = (total+8*1200)*4 <= rb
	}
	st := map[*xferDir]*dirState{}
	x.onRead = func(d *xferDir, r *readRec) { checkRead(w, st, d, r) }
	x.start()

	// fault phase: until the writers are done (bounded), then heal
	faultPhase := time.Duration(5+w.wtape.intn(60)) * time.Second
	if ms := w.params["phase_ms"]; ms > 0 {
		faultPhase = time.Duration(ms) * time.Millisecond
	}
	if w.params["phase_ms"] > 0 {
		w.run(nil, w.now()+faultPhase) // directed scenarios: a fixed fault phase
	} else {
		w.run(func() bool { return x.writersDone() && x.allSettled() }, w.now()+faultPhase)
	}
	if w.stopped() {
		return
	}
	if partition {
		// a full partition long enough to back the RTO off
		w.net.partitioned = [2]bool{true, true}
		w.probe("partition")
		w.sleep(time.Duration(5+w.wtape.intn(120)) * time.Second)
	}
	w.net.heal()
	x.healAt = w.now()
	if tail {
		x.startTail()
	}

	// bounded liveness after the heal point (C02's bound, also used as the patience of the other flavours)
	rmax := rtoMaxOf(w.cfg.Side[0])
	if r := rtoMaxOf(w.cfg.Side[1]); r > rmax {
		rmax = r
	}
	outstanding := 0
	for _, ep := range w.eps {
		outstanding += accBufferedAmount(ep.assoc)
	}
	for _, d := range x.tails {
		for _, n := range d.sizes {
			outstanding += n
		}
	}
	// flow-controlled senders have not written everything yet: what they still hold counts, and each of those
	// messages is written only after an acknowledgement (which may be a delayed one) came back
	paced := 0
	for _, d := range x.dirs {
		if d.cbWrites {
			for i := len(d.msgs); i < len(d.sizes); i++ {
				outstanding += d.sizes[i]
				paced++
			}
		}
	}
	lat := time.Duration(w.cfg.Fault[0].LatencyUs+w.cfg.Fault[0].JitterUs) * time.Microsecond
	minMTU := 1191
	for _, s := range w.cfg.Side {
		if s.MTU != 0 && int(s.MTU) < minMTU {
			minMTU = int(s.MTU)
		}
	}
	pktsOutstanding := outstanding/(minMTU-32) + 1
	maxPause := time.Duration(0)
	for _, d := range x.dirs {
		if d.pauseFor > maxPause {
			maxPause = d.pauseFor
		}
		maxPause += time.Duration(len(d.sizes)) * d.readDelay
	}
	bound := 6*rmax + time.Duration(pktsOutstanding+paced)*(2*lat+200*time.Millisecond)*2 + maxPause + faultPhaseSlack(x)
	r := w.run(func() bool {
		return x.writersDone() && x.allSettled() && x.drained() && x.tailDelivered() && !x.readablePending()
	}, x.healAt+bound)
	if w.stopped() {
		return
	}
	if r != stopCond {
		desc := ""
		for _, ep := range w.eps {
			isz, ib := accInflight(ep.assoc)
			psz, pb := accPending(ep.assoc)
			desc += fmt.Sprintf("%s: state=%s inflight=%d/%dB pending=%d/%dB cwnd=%d rwnd=%d %s; ", ep.name, accStateName(ep.assoc), isz, ib, psz, pb, ep.assoc.CWND(), ep.assoc.RWND(), accTimers(ep.assoc))
		}
		missing, missingPR, missingTail := 0, 0, 0
		for _, d := range x.dirs {
			for _, m := range d.msgs {
				if m.done && m.err == nil && m.delivered == 0 {
					if m.relType == ReliabilityTypeReliable || m.dcep {
						missing++
					} else {
						missingPR++
					}
				}
			}
		}
		for _, d := range x.tails {
			for _, m := range d.msgs {
				if m.delivered == 0 {
					missingTail++
				}
			}
		}
		prop, class := "C02", "stall"
		if missing == 0 && missingTail > 0 && x.drained() {
			prop, class = "C07", "later-message-blocked"
		} else if x.hasPR() && x.drained() {
			// the senders believe everything was acknowledged, yet reliable messages are missing
			prop, class = "C07", "later-message-blocked"
		}
		// C18: an empty write must not disturb later messages of its stream
		for _, d := range x.dirs {
			if d.emptyWrites == 0 && d.failedOdd == 0 {
				continue
			}
			for _, m := range d.msgs {
				if m.done && m.err == nil && m.delivered == 0 && m.size > 0 {
					prop, class = "C18", "failed-write-disturbs-stream"
					if d.failedOdd == 0 {
						class = "empty-write-disturbs-stream"
					}
				}
			}
		}
		if class == "later-message-blocked" {
			// discriminate the recorded findings by what is true of the blocked streams
			for _, d := range append(append([]*xferDir{}, x.dirs...), x.tails...) {
				blocked := false
				for _, m := range d.msgs {
					if m.done && m.err == nil && m.delivered == 0 && (m.relType == ReliabilityTypeReliable || m.dcep || m.tail) {
						blocked = true
					}
				}
				if !blocked || d.rx == nil {
					continue
				}
				if mon.s[1-d.from].fwdNoStream[d.sid] {
					class = "later-message-blocked-forward-before-stream"
				} else if !d.unordered && accStreamUnordered(d.rx.s) {
					class = "later-message-blocked-recv-stream-unordered"
				}
			}
		}
		w.violate(prop, class, "not complete %v after the network healed (bound %v): writersDone=%v undelivered reliable=%d tail=%d partially-reliable=%d drained=%v %s",
			w.now()-x.healAt, bound, x.writersDone(), missing, missingTail, missingPR, x.drained(), desc)
		return
	}
	x.completed = true
	x.doneAt = w.now()
	if w.extra == nil {
		w.extra = map[string]any{}
	}
	w.extra["c02_margin"] = float64(x.doneAt-x.healAt) / float64(bound)

	// let delayed acks and late duplicates settle, then the end-state oracles
	w.quiesce(5 * time.Second)
	if w.stopped() {
		return
	}
	x.finalChecks(mon)
}

// allSettled: every accepted message on a reliable stream (and every DCEP message) was read.
func (x *xfer) allSettled() bool {
	for _, d := range x.dirs {
		for _, m := range d.msgs {
			if !(m.relType == ReliabilityTypeReliable || m.dcep) {
				continue
			}
			if m.done && m.err == nil && m.delivered == 0 {
				return false
			}
		}
	}
	return true
}

// readablePending: some receiver still has a complete message waiting for a (slow) reader.
func (x *xfer) readablePending() bool {
	for _, ep := range x.w.eps {
		for _, st := range ep.streams {
			if !st.readerDone && accReadable(st.s) {
				return true
			}
		}
	}
	return false
}

func (x *xfer) hasPR() bool {
	for _, d := range x.dirs {
		if !d.reliable() {
			return true
		}
	}
	return false
}

func (x *xfer) tailDelivered() bool {
	for _, d := range x.tails {
		if !d.writerDone {
			return false
		}
		for _, m := range d.msgs {
			if m.delivered == 0 {
				return false
			}
		}
	}
	return true
}

// startTail: after the heal point every partially reliable stream gets a few
// more messages with a generous policy; they must all arrive (C07).
func (x *xfer) startTail() {
	w := x.w
	for _, d := range x.dirs {
		if d.reliable() || d.tx == nil {
			continue
		}
		d := d
		t := &xferDir{sid: d.sid, from: d.from, unordered: d.unordered, relType: ReliabilityTypeRexmit, relVal: 1000, tx: d.tx, rx: d.rx}
		n := 1 + w.wtape.intn(3)
		for i := 0; i < n; i++ {
			t.sizes = append(t.sizes, 1+w.wtape.intn(300))
		}
		x.tails = append(x.tails, t)
		sender := w.eps[d.from]
		w.sim.spawnClient(fmt.Sprintf("tail.%s.%d", sender.name, d.sid), sender.name, func() {
			// wait for the original writer
			// ... and until everything written under the old policy has left the sender: the
			// library evaluates the stream's *current* policy at every (re)transmission, so
			// changing it earlier would change the policy of messages still queued
			for !d.writerDone || d.tx.s.BufferedAmount() != 0 {
				h := vsimBlocking("client.sleep")
				time.Sleep(50 * time.Millisecond)
				vsimWoke(h)
			}
			d.tx.s.SetReliabilityParams(t.unordered, t.relType, t.relVal)
			for _, sz := range t.sizes {
				m := w.newMsg(d.tx, sz, false)
				m.unordered, m.relType, m.relVal = t.unordered, t.relType, t.relVal
				m.tail = true
				x.index[m.ppi] = m
				t.msgs = append(t.msgs, m)
				d.msgs = append(d.msgs, m)
				w.write(d.tx, m)
			}
			t.writerDone = true
		})
	}
}

// finalChecks: end-state oracles of a completed, drained, quiescent run.
func (x *xfer) finalChecks(mon *wireMon) {
	w := x.w
	for _, d := range x.dirs {
		prop := "C06"
		if d.reliable() && !d.unordered {
			prop = "C01"
		}
		for _, m := range d.msgs {
			if m.err != nil {
				continue
			}
			mustArrive := m.relType == ReliabilityTypeReliable || m.dcep || m.tail
			if m.delivered > 1 {
				w.violate(prop, "duplicated", "stream %d: message %d delivered %d times", d.sid, m.id, m.delivered)
			}
			if mustArrive && m.delivered != 1 {
				p := prop
				if m.tail {
					p = "C07"
				}
				w.violate(p, "lost", "stream %d: message %d (size %d, dcep=%v tail=%v) delivered %d times after a drained run", d.sid, m.id, m.size, m.dcep, m.tail, m.delivered)
			}
			if !mustArrive && m.delivered == 0 {
				// partially reliable and not delivered: it must have been skipped by an emitted FORWARD-TSN
				if !mon.messageSkipped(d.from, m) {
					w.violate("C07", "discarded-not-abandoned", "stream %d: message %d (size %d, rel=%d/%d) was neither delivered nor covered by any emitted FORWARD-TSN, yet the sender is drained", d.sid, m.id, m.size, m.relType, m.relVal)
				} else {
					w.probe("pr-message-skipped")
				}
			}
		}
	}
	// C18: rejected / failed calls had no effect: nothing of them on the wire, nothing read
	for _, m := range x.odd {
		if m.delivered != 0 {
			w.violate("C18", "rejected-call-delivered", "%s stream %d: a %s write (n=%d err=%v) was delivered to the peer", w.eps[m.from].name, m.sid, m.odd, m.n, m.err)
		}
		for _, ti := range mon.s[m.from].sent {
			if ti.msg == m {
				w.violate("C18", "rejected-call-on-wire", "%s stream %d: a %s write (n=%d err=%v) put TSN %d on the wire", w.eps[m.from].name, m.sid, m.odd, m.n, m.err, ti.tsn)
				break
			}
		}
	}
	// C11 end state: everything readable was read => no byte is held any more
	for _, ep := range w.eps {
		// discriminate one recorded finding: fragments of an unordered I-DATA message that an
		// I-FORWARD-TSN had already skipped, arriving afterwards, are stored and never purged
		explained, unexplained := 0, 0
		desc := ""
		for _, st := range ep.streams {
			for _, lo := range accReasmLeftovers(st.s) {
				hi, ok := mon.s[ep.side].fwdUMID[st.sid]
				if lo.idata && lo.unordered && ok && wSNA32LTE(lo.mid, hi) {
					explained += lo.n
				} else {
					unexplained += lo.n
				}
				if len(desc) < 600 {
					desc += fmt.Sprintf("[sid=%d idata=%v U=%v mid=%d ssn=%d tsn=%d len=%d]", st.sid, lo.idata, lo.unordered, lo.mid, lo.ssn, lo.tsn, lo.n)
				}
			}
		}
		n := accCounterSum(ep.assoc)
		switch {
		case unexplained > 0:
			w.violate("C11", "bytes-held-at-end", "%s: %d bytes still reachable from reassembly queues after everything was read and the run drained: %s", ep.name, unexplained+explained, desc)
		case n != explained:
			w.violate("C11", "counter-not-zero-at-end", "%s: %d bytes still counted in reassembly queues but %d reachable, after everything was read and the run drained (%s)", ep.name, n, explained, accHeldDescription(ep.assoc))
		case explained > 0:
			w.violate("C11", "skipped-unordered-idata-fragment-held", "%s: %d bytes of unordered I-DATA fragments are held for ever; their messages had been skipped by an I-FORWARD-TSN delivered before the fragments arrived: %s", ep.name, explained, desc)
		}
	}
	// C15 end state
	for _, ep := range w.eps {
		if n := accBufferedAmount(ep.assoc); n != 0 {
			w.violate("C15", "assoc-buffered-not-zero", "%s: association buffered amount %d after drain", ep.name, n)
		}
		for _, st := range ep.streams {
			if b := accStreamBuffered(st.s); b != 0 {
				w.violate("C15", "stream-buffered-not-zero", "%s stream %d: BufferedAmount=%d after everything was acknowledged", ep.name, st.sid, b)
			}
		}
	}
}

// faultPhaseSlack: writers that sleep between writes may still be writing after the heal.
func faultPhaseSlack(x *xfer) time.Duration {
	var s time.Duration
	for _, d := range x.dirs {
		var t time.Duration
		for _, g := range d.gaps {
			t += g
		}
		if t > s {
			s = t
		}
	}
	return s
}
