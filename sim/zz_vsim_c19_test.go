package sctp

// C19: timer laws. RTO bounds (every step of every run), Karn's rule and the RFC 6298
// update, back-off by doubling up to RTO.max for data / shutdown / reconfig timers,
// acknowledgement delay <= 200 ms and immediate on gap / duplicate.

import (
	"context"
	"fmt"
	"math"
	"sort"
	"time"
)

func init() {
	registerScenario("C19", scenarioTimers)
}

type c19State struct {
	srtt, rttvar float64
	pktsIn       uint64 // packets taken by the read loop so far (stats counter) at the previous step
	have         bool
	ackDlv       []*wChunk // SACK chunks delivered in the current step
	ackDlvPkts   int
}

// checkTimersStep runs after every scheduling step (monitor.onStep).
func (m *wireMon) checkTimersStep(side int) {
	w := m.w
	ep := w.eps[side]
	a := ep.assoc
	sm := m.s[side]
	// ---- RTO bounds
	rto := accRTO(a)
	max := float64(rtoMaxOf(ep.cfg) / time.Millisecond)
	if rto < 1000-1e-9 || rto > max+1e-9 {
		w.violate("C19", "rto-out-of-bounds", "%s: RTO is %.3f ms; it must lie between 1000 ms and RTO.max = %.0f ms", ep.name, rto, max)
		return
	}
	// ---- Karn + RFC 6298 update
	srtt, rttvar := accSRTTVar(a)
	c := &sm.c19
	pin := accPacketsReceived(a)
	multi := pin-c.pktsIn > 1
	c.pktsIn = pin
	if c.have && (srtt != c.srtt || rttvar != c.rttvar) && multi {
		// a read loop that was kept waiting worked off several packets in this one step: the change is the
		// composition of several updates and is not judged (nor are the samples it may have used kept apart)
		m.count("c19.srtt-updates-in-multi-packet-steps-not-judged")
		sm.rttCands = nil
	} else if c.have && (srtt != c.srtt || rttvar != c.rttvar) {
		m.count("c19.srtt-updates")
		// the update must be the RFC 6298 step for the round trip of one chunk that was on the wire exactly
		// once and was newly acknowledged by one of the recently delivered SACKs (each sample justifies one update)
		// (the window counts delivered packets; packets delivered but not yet taken by the read loop extend it)
		window := 24 + sm.dlvTotal - int(pin)
		if window < 24 {
			window = 24
		}
		keep := sm.rttCands[:0]
		for _, rc := range sm.rttCands {
			if rc.pkt > sm.ackPktSeq-window {
				keep = append(keep, rc)
			}
		}
		sm.rttCands = keep
		hbRecent := sm.hbAckSeen && sm.hbAckSeq > sm.ackPktSeq-window
		found := -1
		for i, rc := range sm.rttCands {
			var es, ev float64
			if c.srtt == 0 {
				es, ev = rc.sample, rc.sample/2
			} else {
				ev = 0.75*c.rttvar + 0.25*math.Abs(c.srtt-rc.sample)
				es = 0.875*c.srtt + 0.125*rc.sample
			}
			if math.Abs(es-srtt) < 1e-6 && math.Abs(ev-rttvar) < 1e-6 {
				found = i
				break
			}
		}
		m.count("c19.srtt-updates-checked")
		if found >= 0 {
			sm.rttCands = append(sm.rttCands[:found:found], sm.rttCands[found+1:]...)
		} else if !hbRecent {
			var samples []float64
			for _, rc := range sm.rttCands {
				samples = append(samples, rc.sample)
			}
			if len(samples) == 0 {
				w.violate("C19", "karn-violated", "%s: SRTT changed from %.3f to %.3f ms although the recently delivered acknowledgements newly acknowledged only retransmitted chunks (or none)", ep.name, c.srtt, srtt)
			} else {
				w.violate("C19", "rtt-update-wrong", "%s: SRTT/RTTVAR went %.4f/%.4f -> %.4f/%.4f ms; the round-trip samples of the chunks newly acknowledged by the recently delivered SACKs that were sent exactly once are %v ms, none gives that RFC 6298 update", ep.name, c.srtt, c.rttvar, srtt, rttvar, samples)
			}
			return
		}
	}
	c.srtt, c.rttvar, c.have = srtt, rttvar, true
	sm.stepAckPkts, sm.stepRTTCands, sm.stepHB = 0, nil, false
	// ---- acknowledgement delay
	if sm.needAckSince >= 0 && m.props["C19.ack"] && accState(a) == established {
		late := w.now() - sm.needAckSince
		if late > 200*time.Millisecond+time.Microsecond {
			w.violate("C19", "ack-delayed", "%s: a packet with new DATA was delivered at %v and no SACK had been emitted %v later (limit 200 ms)", ep.name, sm.needAckSince, late)
			return
		}
		if sm.needAckNow && w.now() > sm.needAckNowAt {
			w.violate("C19", "ack-not-immediate", "%s: a packet delivered at %v %s, but no SACK was emitted at once (now %v)", ep.name, sm.needAckNowAt, sm.needAckWhy, w.now())
			return
		}
	}
}

// backoffCheck judges the firing times of one retransmission timer during a total outage.
func backoffCheck(w *world, name string, from time.Time, rtoMax time.Duration, minExpiries int) {
	// packets that were already in the network when the outage began are still delivered and may
	// restart the timer (e.g. DATA arriving in SHUTDOWN-SENT): judge the expiries after that
	settle := time.Duration(0)
	for _, f := range w.cfg.Fault {
		d := time.Duration(f.LatencyUs+f.JitterUs)*time.Microsecond + time.Duration(f.HoldMaxMs)*time.Millisecond + 100*time.Millisecond
		if f.AlignPPM > 0 {
			d += 3 * time.Second // a packet may have been held back until a timer expiry up to 3 s later
		}
		if d > settle {
			settle = d
		}
	}
	from = from.Add(settle)
	var at []time.Time
	for _, r := range w.sim.cbLog {
		if r.name == name && !r.at.Before(from) {
			at = append(at, r.at)
		}
	}
	sort.Slice(at, func(i, j int) bool { return at[i].Before(at[j]) })
	if len(at) < minExpiries {
		w.violate("C19", "retransmission-stopped", "timer %s fired only %d times during an outage that allows at least %d expiries: retransmission must continue for as long as the association lives", name, len(at), minExpiries)
		return
	}
	var iv []time.Duration
	for i := 1; i < len(at); i++ {
		iv = append(iv, at[i].Sub(at[i-1]))
	}
	for i, d := range iv {
		if d < time.Second || d > rtoMax+time.Millisecond {
			w.violate("C19", "backoff-out-of-bounds", "timer %s: interval %d between expiries is %v, outside [1s, %v]; intervals %v", name, i, d, rtoMax, iv)
			return
		}
		if i > 0 {
			want := 2 * iv[i-1]
			if want > rtoMax {
				want = rtoMax
			}
			// (the library keeps the RTO in fractional milliseconds and arms the timer in whole ones)
			if diff := d - want; diff > 2*time.Millisecond || diff < -2*time.Millisecond {
				w.violate("C19", "backoff-not-doubling", "timer %s: interval %d is %v after %v; expected doubling up to RTO.max %v (%v); intervals %v", name, i, d, iv[i-1], rtoMax, want, iv)
				return
			}
		}
	}
	w.probe("backoff-checked-" + name[len(name)-4:])
}

func scenarioTimers(w *world) {
	cfg := genConfig(w, cfgOpts{wrapBias: false, maxLossPPM: 200000})
	tp := w.wtape
	// non-zero round trips so that RTT samples are meaningful
	if cfg.Fault[0].LatencyUs < 1000 {
		for i := range cfg.Fault {
			cfg.Fault[i].LatencyUs = 1000 + tp.intn(300000)
		}
	}
	w.setup(cfg)
	x := newXfer(w)
	mon := w.installMonitor(x)
	mon.props["C19.ack"] = true
	w.net.faultsOn = false
	if !w.connect(120*time.Second) || w.eps[0].connErr != nil || w.eps[1].connErr != nil {
		if w.viol == nil && w.aborted == "" {
			w.violate("C04", "no-faults-handshake", "fault-free handshake failed: %v / %v", w.eps[0].connErr, w.eps[1].connErr)
		}
		return
	}
	w.net.faultsOn = true
	xo := xferOpts{maxStreams: 3, maxSID: 5, maxMsgs: 15, maxBytes: 150000, reliableOrderedOnly: true}
	x.dirs = genDirs(w, xo)
	for _, d := range x.dirs {
		d.readPause, d.pauseFor = 0, 0
	}
	for side := 0; side < 2; side++ {
		total := 0
		for _, d := range x.dirs {
			if d.from != side {
				for _, n := range d.sizes {
					total += n
				}
			}
		}
		rb := int(w.cfg.Side[side].RecvBuf)
		if rb == 0 {
			rb = 1024 * 1024
		}
		mon.s[side].ample = (total+8*1200)*4 <= rb
	}
	mode := tp.intn(4)
	// 0: data outstanding, 1: shutdown outstanding, 2: reconfig outstanding, 3: plain transfer
	st := map[*xferDir]*dirState{}
	x.onRead = func(d *xferDir, r *readRec) { checkRead(w, st, d, r) }
	x.pokes = w.wtape.intn(2) == 0
	x.start()
	if mode == 3 {
		w.run(func() bool { return x.writersDone() && x.allSettled() }, w.now()+time.Duration(5+tp.intn(30))*time.Second)
		if w.stopped() {
			return
		}
		w.net.heal()
		w.run(func() bool { return x.writersDone() && x.allSettled() && x.drained() }, w.now()+20*time.Minute)
		return
	}
	// let the transfer run a little, then cut the wire completely
	w.sleep(time.Duration(tp.intn(1500)) * time.Millisecond)
	if w.stopped() {
		return
	}
	side := tp.intn(2)
	ep := w.eps[side]
	var timer string
	switch mode {
	case 0:
		timer = "cb:" + ep.name + ".rtx3"
	case 1:
		timer = "cb:" + ep.name + ".rtx2"
		w.run(func() bool { return x.writersDone() && x.allSettled() && x.drained() }, w.now()+5*time.Minute)
		if w.stopped() {
			return
		}
	case 2:
		timer = "cb:" + ep.name + ".rtx4"
		w.run(func() bool { return x.writersDone() && x.allSettled() && x.drained() }, w.now()+5*time.Minute)
		if w.stopped() {
			return
		}
	}
	mon.props["C19.ack"] = false
	w.net.partitioned = [2]bool{true, true}
	w.probe("total-outage")
	from := time.Now()
	switch mode {
	case 0:
		// make sure data is outstanding on the chosen side
		w.sim.spawnClient("outage-writer."+ep.name, ep.name, func() {
			s, err := ep.assoc.OpenStream(30, PayloadTypeWebRTCBinary)
			if err != nil {
				return
			}
			stt := x.gotStream(ep, 30, s)
			d := &xferDir{sid: 30, from: side, relType: ReliabilityTypeReliable, tx: stt}
			x.dirs = append(x.dirs, d)
			for i := 0; i < 3; i++ {
				m := w.newMsg(stt, 100+tp.intn(3000), false)
				x.index[m.ppi] = m
				d.msgs = append(d.msgs, m)
				w.write(stt, m)
			}
			d.writerDone = true
		})
	case 1:
		w.sim.spawnClient("outage-shutdown."+ep.name, ep.name, func() {
			_ = ep.assoc.Shutdown(context.Background())
		})
	case 2:
		w.sim.spawnClient("outage-close."+ep.name, ep.name, func() {
			for _, d := range x.dirs {
				if d.from == side && d.tx != nil {
					_ = d.tx.s.Close()
					return
				}
			}
		})
	}
	rmax := rtoMaxOf(ep.cfg)
	outage := 14*rmax + 3*time.Minute
	w.sleep(outage)
	if w.stopped() {
		return
	}
	// the timer must have kept firing: with intervals doubling from >= 1 s up to RTO.max there are at
	// least (outage - sum of the doubling phase) / RTO.max expiries
	minExp := int((outage - 2*rmax - time.Minute) / rmax)
	if mode == 2 {
		has := false
		for _, d := range x.dirs {
			if d.from == side && d.tx != nil {
				has = true
			}
		}
		if !has {
			return
		}
	}
	// which retransmission timer must have been running is decided from the wire: what did this
	// endpoint put on the wire, unanswered, during the outage?
	fromOff := from.Sub(w.t0)
	sawShutdown, sawReconfig, sawData := false, false, false
	for _, p := range w.pkts[side] {
		if p.at < fromOff {
			continue
		}
		for _, c := range p.chunks {
			switch {
			case c.typ == wtSHUTDOWN || c.typ == wtSHUTDOWNACK:
				sawShutdown = true
			case c.typ == wtRECONFIG && len(c.reconfig) > 0 && c.reconfig[0].typ == 13:
				sawReconfig = true
			case c.isData():
				sawData = true
			}
		}
	}
	_ = timer
	if n, _ := accInflight(ep.assoc); n == 0 {
		// DATA was emitted at the very beginning of the outage but a SACK that arrived just before the
		// partition already covers it: nothing is outstanding, T3 has nothing to do
		if sawData {
			w.probe("outage-data-already-acknowledged")
		}
		sawData = false
	}
	checked := false
	if sawData {
		backoffCheck(w, "cb:"+ep.name+".rtx3", from, rmax, minExp)
		checked = true
	}
	if !w.stopped() && sawShutdown && !sawData {
		backoffCheck(w, "cb:"+ep.name+".rtx2", from, rmax, minExp)
		checked = true
	}
	if !w.stopped() && sawReconfig && !sawData {
		backoffCheck(w, "cb:"+ep.name+".rtx4", from, rmax, minExp)
		checked = true
	}
	if !checked {
		w.probe("outage-with-nothing-outstanding")
	}
	if w.stopped() {
		return
	}
	w.extraSet("c19_mode", mode)
	_ = fmt.Sprint
}

func (w *world) extraSet(k string, v any) {
	if w.extra == nil {
		w.extra = map[string]any{}
	}
	w.extra[k] = v
}
