package sctp

// C13 acceptance rules by twin runs: the same seed is run with one packet corrupted (or its
// checksum zeroed) and with that packet dropped (or delivered intact); the observable
// histories must be identical. The emission rules are checked by the wire monitor in every run.

import (
	"fmt"
	"time"
)

func init() {
	registerScenario("C13", scenarioChecksumTwin)
	registerTwin("C13", twinDef{
		variants: func(seed uint64, params map[string]int) (map[string]int, map[string]int) {
			a, b := copyParams(params), copyParams(params)
			if _, given := a["p0a"]; !given {
				h := vsimNewTape("c13", seed)
				a["p0d"] = h.intn(2)
				a["p0i"] = h.intn(40)
				if h.intn(3) == 0 {
					a["p0i"] = h.intn(4) // aim at the handshake packets
				}
				a["p0a"] = 5 + h.intn(2) // corrupt | zero the checksum field
			}
			for _, k := range []string{"p0d", "p0i"} {
				b[k] = a[k]
			}
			b["p0a"] = 1 // reference: the packet is lost
			if a["p0a"] == 6 {
				b["p0a"] = 7 // zero checksum: intact if the receiver must accept it, lost otherwise
			}
			b["c13_ref"] = 1
			return a, b
		},
		verdict: func(a map[string]int, ra, rb *runResult) (string, string, string) {
			if a["p0a"] == 5 {
				return "C13", "bad-crc-had-effect", fmt.Sprintf("a packet (direction %d, index %d) whose checksum is non-zero and wrong changed the observable history compared with the same packet being lost", a["p0d"], a["p0i"])
			}
			if rb.Probes["zero-crc-ref-intact"] > 0 {
				return "C13", "zero-crc-wrongly-rejected", fmt.Sprintf("a packet (direction %d, index %d) with a zero checksum, acceptable to the receiver, was not treated like the intact packet", a["p0d"], a["p0i"])
			}
			return "C13", "zero-crc-wrongly-accepted", fmt.Sprintf("a packet (direction %d, index %d) with a zero checksum that must not be accepted changed the observable history compared with the same packet being lost", a["p0d"], a["p0i"])
		},
	})
}

func scenarioChecksumTwin(w *world) {
	cfg := genConfig(w, cfgOpts{wrapBias: false, noFaults: true})
	// twin runs must not depend on how many scheduling decisions were drawn
	cfg.YieldPPM, cfg.SwitchPPM = 0, 0
	w.setup(cfg)
	w.sim.noPerm = true
	x := newXfer(w)
	mon := w.installMonitor(x)
	w.net.faultsOn = false
	w.net.mark()
	// zero checksum: the reference is "lost" unless the receiver accepts zero checksums for this packet
	if w.params["p0a"] == 6 || w.params["c13_ref"] == 1 && w.params["c13_zero"] == 1 {
		w.probe("zero-crc-twin")
	}
	if !w.connect(70*time.Second) || w.eps[0].connErr != nil || w.eps[1].connErr != nil {
		if w.viol == nil && w.aborted == "" {
			// a lost / corrupted handshake packet is repaired by T1: a failure here is a real one
			w.violate("C04", "handshake-failed", "handshake failed although only one packet was lost or corrupted: %v / %v", w.eps[0].connErr, w.eps[1].connErr)
		}
		return
	}
	xo := xferOpts{maxStreams: 3, maxSID: 5, maxMsgs: 8, maxBytes: 60000, reliableOrderedOnly: w.ctape.intn(2) == 0, dcep: true}
	x.dirs = genDirs(w, xo)
	for _, d := range x.dirs {
		d.readPause, d.pauseFor, d.readDelay = 0, 0, 0
	}
	w.params = mergeParams(w.params, map[string]int{"phase_ms": 3000})
	runXfer(w, x, mon, false, false)
}
