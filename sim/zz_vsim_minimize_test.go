package sctp

// Minimisation of a failing run: delta debugging over the non-zero entries of
// the decision tapes (0 is always the benign default, so zeroing an entry
// removes a fault, a preemption, a permutation, a workload or configuration
// choice), keeping the violation class fixed.

import (
	"encoding/json"
	"fmt"
	"os"
	"sort"
	"testing"
	"testing/cryptotest"
	"time"
)

var minimizeOrder = []string{"config", "workload", "adversary", "net.AB", "net.BA", "sched", "maporder", "selorder", "rand"}

func copyTapes(t map[string][]uint32) map[string][]uint32 {
	o := map[string][]uint32{}
	for k, v := range t {
		c := make([]uint32, len(v))
		copy(c, v)
		o[k] = c
	}
	return o
}

func nonzeroCount(t map[string][]uint32) int {
	n := 0
	for _, v := range t {
		for _, x := range v {
			if x != 0 {
				n++
			}
		}
	}
	return n
}

func minimizeMain(t *testing.T) {
	b, err := os.ReadFile(*flagReplay)
	if err != nil {
		fmt.Fprintf(os.Stderr, "minimize: %v\n", err)
		os.Exit(2)
	}
	var rf replayFile
	if err := json.Unmarshal(b, &rf); err != nil {
		fmt.Fprintf(os.Stderr, "minimize: %v\n", err)
		os.Exit(2)
	}
	sc, ok := scenarios[rf.Scenario]
	if !ok {
		fmt.Fprintf(os.Stderr, "minimize: unknown scenario %q\n", rf.Scenario)
		os.Exit(2)
	}
	*flagTier = rf.Tier
	start := time.Now()
	budget := *flagBudget
	if budget == 0 {
		budget = 90 * time.Second
	}
	candidates := 0
	try := func(tapes map[string][]uint32) *runResult {
		candidates++
		vsimProgress.Add(1)
		cryptotest.SetGlobalRandom(t, rf.Seed)
		return execRun(t, rf.Scenario, sc, runOpts{seed: rf.Seed, prop: rf.Scenario, replay: tapes, keepTapes: true, params: rf.Params})
	}
	same := func(r *runResult) bool {
		return r.Violation != nil && r.Violation.Prop == rf.Property && r.Violation.Class == rf.Class && r.Aborted == ""
	}
	cur := copyTapes(rf.Tapes)
	base := try(cur)
	if !same(base) {
		fmt.Fprintf(os.Stderr, "minimize: the replay does not reproduce the violation (got %+v aborted=%q)\n", base.Violation, base.Aborted)
		os.Exit(2)
	}
	cur = copyTapes(base.Tapes)
	best := base
	before := nonzeroCount(cur)
	for pass := 0; pass < 3; pass++ {
		improved := false
		for _, name := range minimizeOrder {
			if time.Since(start) > budget || candidates > 4000 {
				break
			}
			for {
				var nz []int
				for i, x := range cur[name] {
					if x != 0 {
						nz = append(nz, i)
					}
				}
				if len(nz) == 0 {
					break
				}
				progress := false
				for chunk := len(nz); chunk >= 1; chunk /= 2 {
					for lo := 0; lo < len(nz); lo += chunk {
						if time.Since(start) > budget || candidates > 4000 {
							break
						}
						hi := lo + chunk
						if hi > len(nz) {
							hi = len(nz)
						}
						cand := copyTapes(cur)
						for _, p := range nz[lo:hi] {
							if p < len(cand[name]) {
								cand[name][p] = 0
							}
						}
						r := try(cand)
						if same(r) {
							cur = copyTapes(r.Tapes)
							best = r
							progress = true
							improved = true
							break
						}
					}
					if progress {
						break
					}
				}
				if !progress {
					break
				}
			}
		}
		if !improved {
			break
		}
	}
	// final verification in this process: the minimised tapes reproduce with the same hash
	final := try(cur)
	if !same(final) || final.Hash != best.Hash {
		fmt.Fprintf(os.Stderr, "minimize: NONDETERMINISM: minimised tapes do not reproduce (hash %s vs %s)\n", final.Hash, best.Hash)
		os.Exit(2)
	}
	cryptotest.SetGlobalRandom(t, rf.Seed)
	verbose := execRun(t, rf.Scenario, sc, runOpts{seed: rf.Seed, prop: rf.Scenario, replay: cur, verbose: true, params: rf.Params})
	out := rf
	out.Tapes = trimTapes(cur)
	out.Hash = final.Hash
	out.Message = final.Violation.Msg
	out.Config = final.Config
	tr := verbose.Trace
	if len(tr) > 4000 {
		tr = append(tr[:1000:1000], append([]string{fmt.Sprintf("... %d lines omitted ...", len(tr)-4000)}, tr[len(tr)-3000:]...)...)
	}
	out.Trace = tr
	ob, _ := json.MarshalIndent(out, "", " ")
	if *flagOut != "" {
		_ = os.WriteFile(*flagOut, ob, 0o644)
	} else {
		os.Stdout.Write(ob)
	}
	fmt.Fprintf(os.Stderr, "minimize: %d candidates, non-zero tape entries %d -> %d, %v\n", candidates, before, nonzeroCount(cur), time.Since(start).Round(time.Millisecond))
}

func trimTapes(t map[string][]uint32) map[string][]uint32 {
	o := map[string][]uint32{}
	names := make([]string, 0, len(t))
	for k := range t {
		names = append(names, k)
	}
	sort.Strings(names)
	for _, k := range names {
		v := t[k]
		n := len(v)
		for n > 0 && v[n-1] == 0 {
			n--
		}
		o[k] = v[:n]
	}
	return o
}
