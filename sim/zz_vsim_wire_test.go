package sctp

// Independent SCTP wire decoder/encoder for the harness, written from
// RFC 9260 / 3758 / 6525 / 8260 / 9653. It deliberately shares no code with the
// repository's codec (only the standard library).

import (
	"encoding/binary"
	"fmt"
	"hash/crc32"
	"strings"
	"time"
)

const (
	wtDATA        = 0
	wtINIT        = 1
	wtINITACK     = 2
	wtSACK        = 3
	wtHEARTBEAT   = 4
	wtHBACK       = 5
	wtABORT       = 6
	wtSHUTDOWN    = 7
	wtSHUTDOWNACK = 8
	wtERROR       = 9
	wtCOOKIEECHO  = 10
	wtCOOKIEACK   = 11
	wtSHUTDOWNCOMPLETE = 14
	wtIDATA       = 64
	wtRECONFIG    = 130
	wtFORWARDTSN  = 192
	wtIFORWARDTSN = 194
)

func wtName(t uint8) string {
	switch t {
	case wtDATA:
		return "DATA"
	case wtINIT:
		return "INIT"
	case wtINITACK:
		return "INIT-ACK"
	case wtSACK:
		return "SACK"
	case wtHEARTBEAT:
		return "HEARTBEAT"
	case wtHBACK:
		return "HEARTBEAT-ACK"
	case wtABORT:
		return "ABORT"
	case wtSHUTDOWN:
		return "SHUTDOWN"
	case wtSHUTDOWNACK:
		return "SHUTDOWN-ACK"
	case wtERROR:
		return "ERROR"
	case wtCOOKIEECHO:
		return "COOKIE-ECHO"
	case wtCOOKIEACK:
		return "COOKIE-ACK"
	case wtSHUTDOWNCOMPLETE:
		return "SHUTDOWN-COMPLETE"
	case wtIDATA:
		return "I-DATA"
	case wtRECONFIG:
		return "RECONFIG"
	case wtFORWARDTSN:
		return "FORWARD-TSN"
	case wtIFORWARDTSN:
		return "I-FORWARD-TSN"
	}
	return fmt.Sprintf("CHUNK(%d)", t)
}

type wGap struct{ start, end uint16 }

type wFwdStream struct {
	sid       uint16
	ssn       uint16 // FORWARD-TSN
	unordered bool   // I-FORWARD-TSN
	mid       uint32 // I-FORWARD-TSN
}

type wParam struct {
	typ   uint16
	value []byte
}

type wCause struct {
	code  uint16
	value []byte
}

type wReconfigParam struct {
	typ       uint16
	reqSN     uint32 // outgoing reset request: request sequence number
	respSN    uint32 // request: response SN; response: response SN
	lastTSN   uint32
	sids      []uint16
	result    uint32
	value     []byte
}

type wChunk struct {
	typ    uint8
	flags  uint8
	length int // length field
	value  []byte

	// DATA / I-DATA
	tsn       uint32
	sid       uint16
	ssn       uint16
	mid       uint32
	fsn       uint32
	ppi       uint32
	begin     bool
	end       bool
	unordered bool
	immediate bool
	userData  []byte

	// SACK / SHUTDOWN
	cumTSN uint32
	arwnd  uint32
	gaps   []wGap
	dups   []uint32

	// INIT / INIT-ACK
	initTag    uint32
	outStreams uint16
	inStreams  uint16
	initialTSN uint32
	params     []wParam

	// FORWARD-TSN
	newCumTSN  uint32
	fwdStreams []wFwdStream

	// RECONFIG
	reconfig []wReconfigParam

	// ABORT / ERROR
	causes []wCause

	// HEARTBEAT / ACK
	hbInfo    []byte
	hbHasInfo bool
}

type wirePacket struct {
	raw     []byte
	mutated []byte // what was delivered if the network altered it
	from    int    // 0 = A, 1 = B, 2 = adversary
	idx     int    // index within its direction
	seq     int64  // global event sequence number at emission
	at      time.Duration
	fate    string

	srcPort, dstPort uint16
	vtag             uint32
	checksum         uint32
	crcOK            bool
	chunks           []*wChunk
	decodeErr        string
}

var wCastagnoli = crc32.MakeTable(crc32.Castagnoli)

// wCRC computes the SCTP CRC32c over the packet with a zeroed checksum field,
// returned in the byte order in which it appears on the wire (little-endian
// stored value read as big-endian is NOT used: we compare stored bytes).
func wCRC(raw []byte) uint32 {
	tmp := make([]byte, len(raw))
	copy(tmp, raw)
	tmp[8], tmp[9], tmp[10], tmp[11] = 0, 0, 0, 0
	return crc32.Checksum(tmp, wCastagnoli)
}

func wDecodePacket(raw []byte) (*wirePacket, error) {
	p := &wirePacket{raw: raw}
	err := p.decode()
	if err != nil {
		p.decodeErr = err.Error()
	}
	return p, err
}

func (p *wirePacket) decode() error {
	raw := p.raw
	if len(raw) < 12 {
		return fmt.Errorf("packet shorter than common header: %d", len(raw))
	}
	p.srcPort = binary.BigEndian.Uint16(raw[0:])
	p.dstPort = binary.BigEndian.Uint16(raw[2:])
	p.vtag = binary.BigEndian.Uint32(raw[4:])
	// RFC 9260 appendix: the CRC32c is stored in little-endian byte order
	p.checksum = binary.LittleEndian.Uint32(raw[8:])
	p.crcOK = p.checksum == wCRC(raw)
	if len(raw)%4 != 0 {
		return fmt.Errorf("packet length %d is not a multiple of 4", len(raw))
	}
	off := 12
	for off < len(raw) {
		if len(raw)-off < 4 {
			return fmt.Errorf("trailing %d bytes are not a chunk header", len(raw)-off)
		}
		c := &wChunk{typ: raw[off], flags: raw[off+1], length: int(binary.BigEndian.Uint16(raw[off+2:]))}
		if c.length < 4 {
			return fmt.Errorf("chunk %s length %d < 4", wtName(c.typ), c.length)
		}
		if off+c.length > len(raw) {
			return fmt.Errorf("chunk %s length %d exceeds packet (%d left)", wtName(c.typ), c.length, len(raw)-off)
		}
		c.value = raw[off+4 : off+c.length]
		padded := (c.length + 3) &^ 3
		if off+padded > len(raw) {
			return fmt.Errorf("chunk %s padding exceeds packet", wtName(c.typ))
		}
		for i := off + c.length; i < off+padded; i++ {
			if raw[i] != 0 {
				return fmt.Errorf("chunk %s non-zero padding", wtName(c.typ))
			}
		}
		if err := c.decodeValue(); err != nil {
			return fmt.Errorf("chunk %s: %w", wtName(c.typ), err)
		}
		p.chunks = append(p.chunks, c)
		off += padded
	}
	return nil
}

func wDecodeParams(v []byte) ([]wParam, error) {
	var out []wParam
	for len(v) > 0 {
		if len(v) < 4 {
			return out, fmt.Errorf("truncated parameter header")
		}
		t := binary.BigEndian.Uint16(v)
		l := int(binary.BigEndian.Uint16(v[2:]))
		if l < 4 || l > len(v) {
			return out, fmt.Errorf("parameter %#x length %d invalid (%d left)", t, l, len(v))
		}
		out = append(out, wParam{typ: t, value: v[4:l]})
		pl := (l + 3) &^ 3
		if pl > len(v) {
			pl = len(v)
		}
		v = v[pl:]
	}
	return out, nil
}

func (c *wChunk) decodeValue() error {
	v := c.value
	switch c.typ {
	case wtDATA:
		if len(v) < 12 {
			return fmt.Errorf("DATA header truncated")
		}
		c.end = c.flags&1 != 0
		c.begin = c.flags&2 != 0
		c.unordered = c.flags&4 != 0
		c.immediate = c.flags&8 != 0
		c.tsn = binary.BigEndian.Uint32(v)
		c.sid = binary.BigEndian.Uint16(v[4:])
		c.ssn = binary.BigEndian.Uint16(v[6:])
		c.ppi = binary.BigEndian.Uint32(v[8:])
		c.userData = v[12:]
	case wtIDATA:
		if len(v) < 16 {
			return fmt.Errorf("I-DATA header truncated")
		}
		c.end = c.flags&1 != 0
		c.begin = c.flags&2 != 0
		c.unordered = c.flags&4 != 0
		c.immediate = c.flags&8 != 0
		c.tsn = binary.BigEndian.Uint32(v)
		c.sid = binary.BigEndian.Uint16(v[4:])
		c.mid = binary.BigEndian.Uint32(v[8:])
		if c.begin {
			c.ppi = binary.BigEndian.Uint32(v[12:])
		} else {
			c.fsn = binary.BigEndian.Uint32(v[12:])
		}
		c.userData = v[16:]
	case wtSACK:
		if len(v) < 12 {
			return fmt.Errorf("SACK header truncated")
		}
		c.cumTSN = binary.BigEndian.Uint32(v)
		c.arwnd = binary.BigEndian.Uint32(v[4:])
		ng := int(binary.BigEndian.Uint16(v[8:]))
		nd := int(binary.BigEndian.Uint16(v[10:]))
		if len(v) != 12+4*ng+4*nd {
			return fmt.Errorf("SACK length %d does not match %d gaps + %d dups", len(v), ng, nd)
		}
		o := 12
		for i := 0; i < ng; i++ {
			c.gaps = append(c.gaps, wGap{binary.BigEndian.Uint16(v[o:]), binary.BigEndian.Uint16(v[o+2:])})
			o += 4
		}
		for i := 0; i < nd; i++ {
			c.dups = append(c.dups, binary.BigEndian.Uint32(v[o:]))
			o += 4
		}
	case wtINIT, wtINITACK:
		if len(v) < 16 {
			return fmt.Errorf("INIT fixed part truncated")
		}
		c.initTag = binary.BigEndian.Uint32(v)
		c.arwnd = binary.BigEndian.Uint32(v[4:])
		c.outStreams = binary.BigEndian.Uint16(v[8:])
		c.inStreams = binary.BigEndian.Uint16(v[10:])
		c.initialTSN = binary.BigEndian.Uint32(v[12:])
		ps, err := wDecodeParams(v[16:])
		c.params = ps
		if err != nil {
			return err
		}
	case wtHEARTBEAT, wtHBACK:
		ps, err := wDecodeParams(v)
		if err != nil {
			return err
		}
		for _, p := range ps {
			if p.typ == 1 {
				c.hbInfo = p.value
				c.hbHasInfo = true
			}
		}
	case wtABORT, wtERROR:
		for len(v) > 0 {
			if len(v) < 4 {
				return fmt.Errorf("truncated error cause header")
			}
			code := binary.BigEndian.Uint16(v)
			l := int(binary.BigEndian.Uint16(v[2:]))
			if l < 4 || l > len(v) {
				return fmt.Errorf("error cause %d length %d invalid (%d left)", code, l, len(v))
			}
			c.causes = append(c.causes, wCause{code: code, value: v[4:l]})
			pl := (l + 3) &^ 3
			if pl > len(v) {
				pl = len(v)
			}
			v = v[pl:]
		}
	case wtSHUTDOWN:
		if len(v) != 4 {
			return fmt.Errorf("SHUTDOWN length %d", len(v))
		}
		c.cumTSN = binary.BigEndian.Uint32(v)
	case wtSHUTDOWNACK, wtSHUTDOWNCOMPLETE, wtCOOKIEACK:
		if len(v) != 0 {
			return fmt.Errorf("unexpected body of %d bytes", len(v))
		}
	case wtCOOKIEECHO:
	case wtFORWARDTSN:
		if len(v) < 4 || (len(v)-4)%4 != 0 {
			return fmt.Errorf("FORWARD-TSN length %d", len(v))
		}
		c.newCumTSN = binary.BigEndian.Uint32(v)
		for o := 4; o < len(v); o += 4 {
			c.fwdStreams = append(c.fwdStreams, wFwdStream{sid: binary.BigEndian.Uint16(v[o:]), ssn: binary.BigEndian.Uint16(v[o+2:])})
		}
	case wtIFORWARDTSN:
		if len(v) < 4 || (len(v)-4)%8 != 0 {
			return fmt.Errorf("I-FORWARD-TSN length %d", len(v))
		}
		c.newCumTSN = binary.BigEndian.Uint32(v)
		for o := 4; o < len(v); o += 8 {
			c.fwdStreams = append(c.fwdStreams, wFwdStream{
				sid:       binary.BigEndian.Uint16(v[o:]),
				unordered: binary.BigEndian.Uint16(v[o+2:])&1 != 0,
				mid:       binary.BigEndian.Uint32(v[o+4:]),
			})
		}
	case wtRECONFIG:
		ps, err := wDecodeParams(v)
		if err != nil {
			return err
		}
		if len(ps) < 1 || len(ps) > 2 {
			return fmt.Errorf("RECONFIG with %d parameters", len(ps))
		}
		for _, p := range ps {
			rp := wReconfigParam{typ: p.typ, value: p.value}
			switch p.typ {
			case 13:
				if len(p.value) < 12 || (len(p.value)-12)%2 != 0 {
					return fmt.Errorf("outgoing reset request length %d", len(p.value))
				}
				rp.reqSN = binary.BigEndian.Uint32(p.value)
				rp.respSN = binary.BigEndian.Uint32(p.value[4:])
				rp.lastTSN = binary.BigEndian.Uint32(p.value[8:])
				for o := 12; o < len(p.value); o += 2 {
					rp.sids = append(rp.sids, binary.BigEndian.Uint16(p.value[o:]))
				}
			case 16:
				if len(p.value) != 8 && len(p.value) != 16 {
					return fmt.Errorf("reconfig response length %d", len(p.value))
				}
				rp.respSN = binary.BigEndian.Uint32(p.value)
				rp.result = binary.BigEndian.Uint32(p.value[4:])
			}
			c.reconfig = append(c.reconfig, rp)
		}
	}
	return nil
}

func (c *wChunk) isData() bool { return c.typ == wtDATA || c.typ == wtIDATA }

func (p *wirePacket) hasChunk(t uint8) bool {
	for _, c := range p.chunks {
		if c.typ == t {
			return true
		}
	}
	return false
}

func (p *wirePacket) summary() string {
	var sb strings.Builder
	fmt.Fprintf(&sb, "#%d %s t=%v vtag=%08x crc=%v", p.idx, []string{"A>B", "B>A", "X"}[p.from], p.at, p.vtag, p.crcOK)
	if p.fate != "" {
		fmt.Fprintf(&sb, " [%s]", p.fate)
	}
	if p.decodeErr != "" {
		fmt.Fprintf(&sb, " DECODE-ERROR(%s)", p.decodeErr)
	}
	for _, c := range p.chunks {
		sb.WriteString(" | ")
		sb.WriteString(c.summary())
	}
	return sb.String()
}

func (c *wChunk) summary() string {
	switch c.typ {
	case wtDATA:
		return fmt.Sprintf("DATA tsn=%d sid=%d ssn=%d ppi=%d B=%v E=%v U=%v len=%d", c.tsn, c.sid, c.ssn, c.ppi, c.begin, c.end, c.unordered, len(c.userData))
	case wtIDATA:
		return fmt.Sprintf("I-DATA tsn=%d sid=%d mid=%d fsn=%d ppi=%d B=%v E=%v U=%v len=%d", c.tsn, c.sid, c.mid, c.fsn, c.ppi, c.begin, c.end, c.unordered, len(c.userData))
	case wtSACK:
		return fmt.Sprintf("SACK cum=%d arwnd=%d gaps=%v dups=%v", c.cumTSN, c.arwnd, c.gaps, c.dups)
	case wtINIT, wtINITACK:
		return fmt.Sprintf("%s tag=%08x arwnd=%d tsn=%d nparams=%d", wtName(c.typ), c.initTag, c.arwnd, c.initialTSN, len(c.params))
	case wtFORWARDTSN, wtIFORWARDTSN:
		return fmt.Sprintf("%s newcum=%d streams=%v", wtName(c.typ), c.newCumTSN, c.fwdStreams)
	case wtRECONFIG:
		s := "RECONFIG"
		for _, r := range c.reconfig {
			if r.typ == 13 {
				s += fmt.Sprintf(" req(rsn=%d last=%d sids=%v)", r.reqSN, r.lastTSN, r.sids)
			} else if r.typ == 16 {
				s += fmt.Sprintf(" resp(rsn=%d result=%d)", r.respSN, r.result)
			} else {
				s += fmt.Sprintf(" param(%d)", r.typ)
			}
		}
		return s
	case wtSHUTDOWN:
		return fmt.Sprintf("SHUTDOWN cum=%d", c.cumTSN)
	case wtABORT, wtERROR:
		s := wtName(c.typ)
		for _, cs := range c.causes {
			s += fmt.Sprintf(" cause(%d,%q)", cs.code, string(cs.value))
		}
		return s
	case wtHEARTBEAT, wtHBACK:
		return fmt.Sprintf("%s info=%x", wtName(c.typ), c.hbInfo)
	}
	return wtName(c.typ)
}

// ---------------------------------------------------------------- encoder (adversary / crafted packets)

type wBuilder struct {
	b []byte
}

func wNewPacket(src, dst uint16, vtag uint32) *wBuilder {
	w := &wBuilder{b: make([]byte, 12)}
	binary.BigEndian.PutUint16(w.b[0:], src)
	binary.BigEndian.PutUint16(w.b[2:], dst)
	binary.BigEndian.PutUint32(w.b[4:], vtag)
	return w
}

func (w *wBuilder) chunk(typ, flags uint8, value []byte) *wBuilder {
	l := 4 + len(value)
	h := []byte{typ, flags, byte(l >> 8), byte(l)}
	w.b = append(w.b, h...)
	w.b = append(w.b, value...)
	for len(w.b)%4 != 0 {
		w.b = append(w.b, 0)
	}
	return w
}

// chunkRawLen appends a chunk whose length field is forced (malformed on purpose).
func (w *wBuilder) chunkRawLen(typ, flags uint8, length int, value []byte) *wBuilder {
	h := []byte{typ, flags, byte(length >> 8), byte(length)}
	w.b = append(w.b, h...)
	w.b = append(w.b, value...)
	for len(w.b)%4 != 0 {
		w.b = append(w.b, 0)
	}
	return w
}

func (w *wBuilder) bytes(withCRC bool) []byte {
	out := make([]byte, len(w.b))
	copy(out, w.b)
	if withCRC {
		binary.LittleEndian.PutUint32(out[8:], wCRC(out))
	}
	return out
}

func wU32(vs ...uint32) []byte {
	b := make([]byte, 4*len(vs))
	for i, v := range vs {
		binary.BigEndian.PutUint32(b[4*i:], v)
	}
	return b
}

func wDataValue(tsn uint32, sid, ssn uint16, ppi uint32, data []byte) []byte {
	b := make([]byte, 12+len(data))
	binary.BigEndian.PutUint32(b, tsn)
	binary.BigEndian.PutUint16(b[4:], sid)
	binary.BigEndian.PutUint16(b[6:], ssn)
	binary.BigEndian.PutUint32(b[8:], ppi)
	copy(b[12:], data)
	return b
}

func wIDataValue(tsn uint32, sid uint16, mid, ppiOrFSN uint32, data []byte) []byte {
	b := make([]byte, 16+len(data))
	binary.BigEndian.PutUint32(b, tsn)
	binary.BigEndian.PutUint16(b[4:], sid)
	binary.BigEndian.PutUint32(b[8:], mid)
	binary.BigEndian.PutUint32(b[12:], ppiOrFSN)
	copy(b[16:], data)
	return b
}

func wSackValue(cum, arwnd uint32, gaps []wGap, dups []uint32) []byte {
	b := make([]byte, 12+4*len(gaps)+4*len(dups))
	binary.BigEndian.PutUint32(b, cum)
	binary.BigEndian.PutUint32(b[4:], arwnd)
	binary.BigEndian.PutUint16(b[8:], uint16(len(gaps)))
	binary.BigEndian.PutUint16(b[10:], uint16(len(dups)))
	o := 12
	for _, g := range gaps {
		binary.BigEndian.PutUint16(b[o:], g.start)
		binary.BigEndian.PutUint16(b[o+2:], g.end)
		o += 4
	}
	for _, d := range dups {
		binary.BigEndian.PutUint32(b[o:], d)
		o += 4
	}
	return b
}

func wParamTLV(typ uint16, value []byte) []byte {
	l := 4 + len(value)
	b := []byte{byte(typ >> 8), byte(typ), byte(l >> 8), byte(l)}
	b = append(b, value...)
	for len(b)%4 != 0 {
		b = append(b, 0)
	}
	return b
}

// serial-number arithmetic of the harness (RFC 1982), independent of util.go
func wSNA32LT(a, b uint32) bool  { return a != b && int32(a-b) < 0 }
func wSNA32LTE(a, b uint32) bool { return a == b || wSNA32LT(a, b) }
func wSNA32GT(a, b uint32) bool  { return a != b && int32(a-b) > 0 }
func wSNA32GTE(a, b uint32) bool { return a == b || wSNA32GT(a, b) }
