package sctp

// Generic data-transfer workload shared by the data-path properties, with the
// swarm configuration generator.

import (
	"errors"
	"fmt"
	"io"
	"sort"
	"time"
)

// ---------------------------------------------------------------- swarm configuration

type cfgOpts struct {
	noFaults       bool
	maxLossPPM     uint32
	allowCorrupt   bool
	forceReliable  bool
	smallBuffers   bool
	blockWriteOK   bool
	wrapBias       bool // half of the runs start within one tracking window of 2^32
}

func pick[T any](tp *vsimTape, vs ...T) T { return vs[tp.intn(len(vs))] }

func genConfig(w *world, o cfgOpts) *runConfig {
	tp := w.ctape
	c := &runConfig{}
	roles := pick(tp, [2]string{"client", "server"}, [2]string{"server", "client"}, [2]string{"client", "client"})
	for i := 0; i < 2; i++ {
		s := &c.Side[i]
		s.Role = roles[i]
		s.MTU = pick[uint32](tp, 0, 0, 1500, 576, 256, 100, 64, 1200)
		s.RecvBuf = pick[uint32](tp, 0, 0, 256*1024, 64*1024, 32*1024, 16*1024, 8*1024)
		if o.smallBuffers {
			s.RecvBuf = pick[uint32](tp, 4*1024, 8*1024, 16*1024, 2*1024, 32*1024)
		}
		s.MaxMsg = pick[uint32](tp, 0, 0, 16*1024, 4096, 100000, 262144)
		s.Interleaving = tp.intn(3) != 0
		s.ZeroCRC = tp.intn(3) == 0
		if o.blockWriteOK {
			s.BlockWrite = tp.intn(4) == 0
		}
		s.RTOMax = pick[float64](tp, 0, 0, 2000, 5000, 10000)
		s.MinCwnd = pick[uint32](tp, 0, 0, 0, 8000, 20000)
		s.FastRtxWnd = pick[uint32](tp, 0, 0, 0, 4000)
		s.CwndCAStep = pick[uint32](tp, 0, 0, 0, 3000)
		s.Scheduler = pick(tp, "", "wfq", "rr")
		if s.Scheduler == "wfq" {
			s.Weights = map[uint16]uint16{}
			for sid := uint16(0); sid < 6; sid++ {
				if tp.intn(2) == 0 {
					s.Weights[sid] = uint16(1 + tp.intn(8))
				}
			}
		}
		// initial TSN
		mode := tp.intn(4)
		if o.wrapBias && mode >= 2 {
			s.ForceTSN = true
			off := uint32(1 + tp.intn(9000))
			if mode == 3 {
				off = pick[uint32](tp, 1, 2, 63, 64, 65, 4096, 4097, 8448, 2048, 100)
			}
			s.InitialTSN = 0 - off
		}
	}
	// both endpoints of an association share the transport latency
	lat := pick(tp, 0, 0, 200, 1000, 5000, 20000, 50000, 150000)
	jit := pick(tp, 0, 0, 100, 1000, 10000, 40000)
	maxLoss := o.maxLossPPM
	if maxLoss == 0 {
		maxLoss = 200000
	}
	for i := 0; i < 2; i++ {
		f := &c.Fault[i]
		f.LatencyUs = lat
		f.JitterUs = jit
		if o.noFaults {
			continue
		}
		if tp.intn(4) != 0 {
			f.DropPPM = uint32(tp.intn(int(maxLoss)))
			if tp.intn(3) == 0 {
				f.DropPPM /= 10
			}
		}
		if tp.intn(3) == 0 {
			f.DupPPM = uint32(tp.intn(100000))
		}
		if tp.intn(2) == 0 {
			f.ReorderPPM = uint32(tp.intn(200000))
			f.HoldMaxMs = pick(tp, 5, 20, 100, 400, 1500)
		}
		// some networks hold packets back until the very instant a timer of the system expires
		f.AlignPPM = pick[uint32](tp, 0, 0, 20000, 100000, 300000)
		if o.allowCorrupt && tp.intn(3) == 0 {
			f.CorruptPPM = uint32(tp.intn(50000))
		}
	}
	c.YieldPPM = pick[uint32](tp, 0, 0, 2000, 20000, 100000, 400000)
	c.SwitchPPM = pick[uint32](tp, 0, 20000, 200000, 1000000)
	c.StepBudget = 400000
	if thorough() {
		c.StepBudget = 3000000
	}
	return c
}

// ---------------------------------------------------------------- transfer plan

type xferDir struct {
	sid       uint16
	from      int
	unordered bool
	relType   byte
	relVal    uint32
	sizes     []int
	dcep      []bool
	gaps      []time.Duration
	preopen   bool
	rxOpened  bool // the receiving side's Stream object exists (set by the pre-open task)
	cbWrites  bool // flow-controlled sender: after the first message the rest is written from the OnBufferedAmountLow callback
	readDelay time.Duration
	readPause int           // pause after this many reads (0 = never)
	pauseFor  time.Duration // length of the pause
	setRecvParams bool      // receiver mirrors the reliability params on its stream object
	oddWrites     bool      // the writer mixes rejected / failing calls among the good ones (C18)
	deadlines     bool      // the reader arms read deadlines before some reads
	flip          []bool    // the writer toggles ordered/unordered before write i (mixed ordering on one stream)
	shortReads    bool      // the reader sometimes offers a buffer that is too small first
	recvUnordered int       // directed scenarios: 1 = receiver configures its stream object unordered, 2 = ordered
	dcepTail      bool      // C14: the last messages of an unordered stream are DCEP (ordered) messages
	curUnordered  bool      // ordering mode the writer has currently set on its stream object

	tx         *simStream
	rx         *simStream
	writerDone bool
	msgs       []*msgRec
	emptyWrites int
	failedOdd   int // rejected / failed calls other than empty writes
}

func (d *xferDir) reliable() bool { return d.relType == ReliabilityTypeReliable }

// mixedOrdering: the stream carries ordered and unordered messages (DCEP control messages are
// always ordered; or the writer toggles the ordering).
func (d *xferDir) mixedOrdering() bool {
	for _, f := range d.flip {
		if f {
			return true
		}
	}
	if d.unordered {
		for _, c := range d.dcep {
			if c {
				return true
			}
		}
	}
	return false
}

type xfer struct {
	w     *world
	dirs  []*xferDir
	tails []*xferDir
	index map[uint32]*msgRec
	// end-of-run bookkeeping
	healAt    time.Duration
	doneAt    time.Duration
	completed bool
	onRead    func(d *xferDir, r *readRec)
	bufSize   int
	odd       []*msgRec // calls that must have had no effect
	hostile   bool      // C03: an adversary forges packets (forward-TSNs may purge a reliable stream's queue at any time)
	seqBase   bool      // C16: every stream starts its SSN / MID spaces at the run's base (white-box, both ends)
	extra     map[*Stream]bool // further Stream objects met under an identifier that already has one (see gotStream)
	pokes     bool      // C19: both ends call ActiveHeartbeat at seeded moments (whatever state they and the peer are in)
}

func newXfer(w *world) *xfer {
	return &xfer{w: w, index: map[uint32]*msgRec{}}
}

// sizeMix draws a message size from the mixture of DESIGN §3.2.
func sizeMix(tp *vsimTape, frag int, maxMsg int, big bool) int {
	if frag <= 0 {
		frag = 1000
	}
	var n int
	switch tp.intn(12) {
	case 0:
		n = 1 + tp.intn(4)
	case 1:
		n = frag - 2 + tp.intn(5)
	case 2:
		n = frag * (1 + tp.intn(4))
	case 3:
		n = frag*(1+tp.intn(4)) + 1 + tp.intn(3)
	case 4:
		if big {
			n = maxMsg - tp.intn(2)
		} else {
			n = 1 + tp.intn(3*frag)
		}
	case 5:
		n = 1 + tp.intn(64)
	case 6, 7:
		n = 1 + tp.intn(2*frag)
	case 8:
		n = 8 + tp.intn(1200)
	default:
		n = 1 + tp.intn(400)
	}
	if n < 1 {
		n = 1
	}
	if n > maxMsg {
		n = maxMsg
	}
	return n
}

func (x *xfer) stream(ep *endpoint, sid uint16, s *Stream) *simStream {
	if st, ok := ep.streams[sid]; ok {
		return st
	}
	st := &simStream{ep: ep, sid: sid, s: s}
	ep.streams[sid] = st
	return st
}

// start spawns acceptors, writers and readers.
func (x *xfer) start() {
	w := x.w
	maxMsg := 0
	for _, ep := range w.eps {
		if m := int(ep.assoc.MaxMessageSize()); m > maxMsg {
			maxMsg = m
		}
	}
	for _, d := range x.dirs {
		for _, n := range d.sizes {
			if n > maxMsg {
				maxMsg = n
			}
		}
	}
	x.bufSize = maxMsg + 64
	if x.pokes {
		for _, ep := range w.eps {
			ep := ep
			n := w.wtape.intn(4)
			gaps := make([]time.Duration, n)
			for i := range gaps {
				gaps[i] = time.Duration(w.wtape.intn(3000)) * time.Millisecond
			}
			w.sim.spawnClient("poke."+ep.name, ep.name, func() {
				for _, g := range gaps {
					h := vsimBlocking("client.sleep")
					time.Sleep(g)
					vsimWoke(h)
					if w.tornDown || w.stopped() {
						return
					}
					ep.assoc.ActiveHeartbeat()
					w.apiEvent(ep, "heartbeat", "")
				}
			})
		}
	}
	for _, ep := range w.eps {
		ep := ep
		w.sim.spawnClient("accept."+ep.name, ep.name, func() {
			for {
				call := w.beginCall(ep, "accept", -1)
				s, err := ep.assoc.AcceptStream()
				w.endCall(call, err)
				if err != nil {
					ep.acceptEOF = true
					w.apiEvent(ep, "accept", fmt.Sprintf("err=%v", err))
					return
				}
				sid := s.StreamIdentifier()
				w.apiEvent(ep, "accept", fmt.Sprintf("sid=%d", sid))
				x.gotStream(ep, sid, s)
			}
		})
	}
	for _, d := range x.dirs {
		d := d
		sender := w.eps[d.from]
		recv := w.eps[1-d.from]
		if d.preopen {
			w.sim.spawnClient(fmt.Sprintf("preopen.%s.%d", recv.name, d.sid), recv.name, func() {
				s, err := recv.assoc.OpenStream(d.sid, PayloadTypeWebRTCBinary)
				w.apiEvent(recv, "open", fmt.Sprintf("sid=%d err=%v", d.sid, err))
				if err == nil {
					x.gotStream(recv, d.sid, s)
				}
				d.rxOpened = true
			})
		}
		w.sim.spawnClient(fmt.Sprintf("writer.%s.%d", sender.name, d.sid), sender.name, func() {
			s, err := sender.assoc.OpenStream(d.sid, PayloadTypeWebRTCBinary)
			w.apiEvent(sender, "open", fmt.Sprintf("sid=%d err=%v", d.sid, err))
			if err != nil {
				d.writerDone = true
				return
			}
			st := x.gotStream(sender, d.sid, s)
			d.tx = st
			// the recorded finding KF5 (a FORWARD-TSN for a stream the receiver has not created yet is ignored) is kept
			// out of the search by pre-opening partially reliable streams at the receiver: the exclusion must not depend
			// on the pre-open task winning a race against the first abandoned message
			for d.preopen && !d.reliable() && !d.rxOpened && w.params["kf_fwd_unknown"] == 0 && !w.tornDown && !w.stopped() {
				h := vsimBlocking("client.sleep")
				time.Sleep(time.Millisecond)
				vsimWoke(h)
			}
			s.SetReliabilityParams(d.unordered, d.relType, d.relVal)
			d.curUnordered = d.unordered
			if d.cbWrites && d.flip == nil && len(d.sizes) > 1 {
				// the first message is written here, every further one from the callback, i.e. on the read loop of the
				// association, inside the window in which acknowledgement processing has let go of the association lock
				thr := uint64(pick(w.wtape, 0, 0, 1200, 8000))
				next := 1
				writeOne := func(i int) {
					m := w.newMsg(st, d.sizes[i], d.dcep != nil && d.dcep[i])
					m.unordered, m.relType, m.relVal = d.curUnordered, d.relType, d.relVal
					if m.dcep {
						x.index[uint32(m.id)|0x80000000] = m
					} else {
						x.index[m.ppi] = m
					}
					d.msgs = append(d.msgs, m)
					w.write(st, m)
				}
				// one writer at a time (callbacks may come from the read loop and from timer paths): a callback that
				// arrives while a write is in progress only asks the writer in progress to look again
				busy, again := false, false
				pump := func() {
					if busy {
						again = true
						return
					}
					busy = true
					for {
						again = false
						for next < len(d.sizes) && !w.tornDown && !w.stopped() && s.BufferedAmount() <= thr {
							i := next
							next++
							writeOne(i)
						}
						if !again {
							break
						}
					}
					busy = false
					if next >= len(d.sizes) {
						d.writerDone = true
					}
				}
				s.SetBufferedAmountLowThreshold(thr)
				s.OnBufferedAmountLow(func() {
					w.probe("write-from-low-threshold-callback")
					pump()
				})
				busy = true
				writeOne(0)
				busy = false
				pump()
				return
			}
			for i, n := range d.sizes {
				if d.gaps != nil && d.gaps[i] > 0 {
					h := vsimBlocking("client.sleep")
					time.Sleep(d.gaps[i])
					vsimWoke(h)
				}
				if d.oddWrites {
					x.oddWrite(d, st, s)
				}
				if d.flip != nil && d.flip[i] {
					d.curUnordered = !d.curUnordered
					s.SetReliabilityParams(d.curUnordered, d.relType, d.relVal)
					w.probe("ordering-toggled-on-stream")
				}
				m := w.newMsg(st, n, d.dcep != nil && d.dcep[i])
				m.unordered, m.relType, m.relVal = d.curUnordered, d.relType, d.relVal
				if m.dcep {
					x.index[uint32(m.id)|0x80000000] = m
				} else {
					x.index[m.ppi] = m
				}
				d.msgs = append(d.msgs, m)
				w.write(st, m)
			}
			d.writerDone = true
		})
	}
}

// gotStream registers the Stream object of (ep, sid) and starts its reader once.
func (x *xfer) gotStream(ep *endpoint, sid uint16, s *Stream) *simStream {
	w := x.w
	if st, ok := ep.streams[sid]; ok {
		if s != nil && st.s != s && !x.extra[s] {
			// a second Stream object under this identifier: the peer's incarnation was reset before this side got
			// round to opening or accepting it (an application that is scheduled late). What it holds is read too.
			if x.extra == nil {
				x.extra = map[*Stream]bool{}
			}
			x.extra[s] = true
			var d *xferDir
			for _, c := range x.dirs {
				if c.sid == sid && c.from != ep.side {
					d = c
				}
			}
			st2 := &simStream{ep: ep, sid: sid, s: s, inc: st.inc + 1 + len(x.extra)}
			w.probe("second-stream-object-for-identifier")
			w.sim.spawnClient(fmt.Sprintf("reader.%s.%d.x%d", ep.name, sid, len(x.extra)), ep.name, func() {
				buf := make([]byte, x.bufSize)
				for {
					r := w.read(st2, buf, x.index)
					if r.err != nil {
						return
					}
					if x.onRead != nil {
						x.onRead(d, r)
					}
				}
			})
		}
		return st
	}
	st := x.stream(ep, sid, s)
	if x.seqBase {
		accSetSeqBase(s, uint16(w.params["ssn"]), uint32(w.params["mid"]))
	}
	// find the direction this endpoint receives on
	var d *xferDir
	for _, c := range x.dirs {
		if c.sid == sid && c.from != ep.side {
			d = c
		}
	}
	if d != nil {
		d.rx = st
		if d.setRecvParams {
			s.SetReliabilityParams(d.unordered, d.relType, d.relVal)
		}
		if d.recvUnordered != 0 {
			s.SetReliabilityParams(d.recvUnordered == 1, ReliabilityTypeReliable, 0)
		}
	}
	w.sim.spawnClient(fmt.Sprintf("reader.%s.%d", ep.name, sid), ep.name, func() {
		buf := make([]byte, x.bufSize)
		nread := 0
		for {
			if d != nil && d.readDelay > 0 {
				h := vsimBlocking("client.sleep")
				time.Sleep(d.readDelay)
				vsimWoke(h)
			}
			if d != nil && d.readPause > 0 && nread == d.readPause {
				h := vsimBlocking("client.sleep")
				time.Sleep(d.pauseFor)
				vsimWoke(h)
			}
			if d != nil && d.deadlines && w.wtape.intn(2) == 0 {
				// a read under a deadline (C18): it returns the deadline error at the deadline, not
				// earlier, and nothing is lost or duplicated by it
				dd := time.Duration(pick(w.wtape, 0, 1, 5, 50, 200, 1000, 10000)) * time.Millisecond
				if ms := w.params["deadline_ms"]; ms > 0 {
					dd = time.Duration(ms) * time.Millisecond
				}
				deadline := time.Now().Add(dd)
				_ = st.s.SetReadDeadline(deadline)
				dl := w.now() + dd
				r := w.read(st, buf, x.index)
				if r.err != nil && errors.Is(r.err, ErrReadDeadlineExceeded) {
					w.probe("read-deadline-expired")
					if r.at < dl {
						w.violate("C18", "deadline-early", "%s stream %d: read returned the deadline error at %v, before its deadline %v", ep.name, sid, r.at, dl)
					}
					if dd > 0 && r.at > dl+time.Millisecond {
						w.violate("C18", "deadline-late", "%s stream %d: read blocked until %v although its deadline was %v", ep.name, sid, r.at, dl)
					}
					// clear or re-arm, then go on reading
					if w.params["deadline_ms"] > 0 {
						continue // directed: the next iteration re-arms at once
					}
					if w.wtape.intn(2) == 0 {
						_ = st.s.SetReadDeadline(time.Time{})
					} else {
						_ = st.s.SetReadDeadline(time.Now().Add(time.Duration(1+w.wtape.intn(2000)) * time.Millisecond))
					}
					continue
				}
				if r.err != nil {
					st.readErr = r.err
					st.readerDone = true
					return
				}
				if w.wtape.intn(2) == 0 {
					_ = st.s.SetReadDeadline(time.Time{})
				}
				nread++
				if x.onRead != nil {
					x.onRead(d, r)
				}
				continue
			}
			if d != nil && d.shortReads && w.wtape.intn(3) == 0 {
				// a read into a buffer that may be too small: must report io.ErrShortBuffer and keep the
				// message (C18); the byte accounting must not move (C11)
				small := buf[:pick(w.wtape, 0, 1, 2, 16, 60, 100, 700, 1200)]
				before := accReasmCounter(st.s)
				rs := w.read(st, small, x.index)
				if errors.Is(rs.err, io.ErrShortBuffer) {
					w.probe("short-buffer-read")
					if rs.n <= len(small) {
						w.violate("C18", "short-buffer-length", "%s stream %d: ReadSCTP into %d bytes returned ErrShortBuffer with n=%d", ep.name, sid, len(small), rs.n)
					}
					if after := accReasmCounter(st.s); after < before && d.reliable() && !x.hostile {
						w.violate("C11", "short-read-released-bytes", "%s stream %d: a read that failed with ErrShortBuffer changed the queued-byte counter from %d to %d although the message is still queued", ep.name, sid, before, after)
					}
					// the adequate read that follows must return that same message; where ordered and
					// unordered messages share the stream another complete message of the other kind
					// may be handed out first, the refused one must still follow
					r2 := w.read(st, buf, x.index)
					for tries := 0; d.mixedOrdering() && r2.err == nil && r2.n != rs.n && tries < 64; tries++ {
						w.probe("short-buffer-other-kind-first")
						nread++
						if x.onRead != nil {
							x.onRead(d, r2)
						}
						r2 = w.read(st, buf, x.index)
					}
					if r2.err != nil && d.mixedOrdering() && (errors.Is(r2.err, io.EOF) || w.tornDown || w.stopped()) {
						st.readErr = r2.err
						st.readerDone = true
						return
					}
					if r2.err != nil || r2.n != rs.n {
						w.violate("C18", "short-buffer-lost-message", "%s stream %d: after ErrShortBuffer (message of %d bytes) the next read returned n=%d err=%v", ep.name, sid, rs.n, r2.n, r2.err)
						st.readerDone = true
						return
					}
					nread++
					if x.onRead != nil {
						x.onRead(d, r2)
					}
					continue
				}
				if rs.err != nil && d.deadlines && errors.Is(rs.err, ErrReadDeadlineExceeded) {
					// a deadline armed earlier expired: not the end of the stream
					w.probe("read-deadline-expired")
					_ = st.s.SetReadDeadline(time.Time{})
					continue
				}
				if rs.err != nil {
					st.readErr = rs.err
					st.readerDone = true
					return
				}
				nread++
				if x.onRead != nil {
					x.onRead(d, rs)
				}
				continue
			}
			r := w.read(st, buf, x.index)
			if r.err != nil && d != nil && d.deadlines && errors.Is(r.err, ErrReadDeadlineExceeded) {
				// a deadline armed earlier expired during this read
				w.probe("read-deadline-expired")
				_ = st.s.SetReadDeadline(time.Time{})
				continue
			}
			if r.err != nil {
				st.readErr = r.err
				st.readerDone = true
				return
			}
			nread++
			if x.onRead != nil {
				x.onRead(d, r)
			}
		}
	})
	return st
}

func (x *xfer) writersDone() bool {
	for _, d := range x.dirs {
		if !d.writerDone {
			return false
		}
	}
	return true
}

// reliableDelivered: every successful write on every reliable stream was read.
func (x *xfer) reliableDelivered() bool {
	for _, d := range x.dirs {
		if !d.reliable() {
			continue
		}
		for _, m := range d.msgs {
			if m.done && m.err == nil && m.delivered == 0 {
				return false
			}
		}
	}
	return true
}

func (x *xfer) okReads(st *simStream) []*readRec {
	var out []*readRec
	if st == nil {
		return out
	}
	for _, r := range st.reads {
		if r.err == nil {
			out = append(out, r)
		}
	}
	return out
}

// drained reads the senders' buffered amounts white-box (driver context).
func (x *xfer) drained() bool {
	for _, ep := range x.w.eps {
		if ep.assoc == nil {
			continue
		}
		if accBufferedAmount(ep.assoc) != 0 {
			return false
		}
	}
	return true
}

// genDirs draws a set of stream directions.
func genDirs(w *world, o xferOpts) []*xferDir {
	tp := w.wtape
	nStreams := 1 + tp.intn(o.maxStreams)
	var dirs []*xferDir
	maxMsgOf := func(side int) int {
		m := int(w.cfg.Side[side].MaxMsg)
		if m == 0 {
			m = 65536
		}
		return m
	}
	fragOf := func(side int) int {
		mtu := int(w.cfg.Side[side].MTU)
		if mtu == 0 {
			mtu = 1191
		}
		return mtu - 32
	}
	for i := 0; i < nStreams; i++ {
		sid := uint16(tp.intn(o.maxSID + 1))
		dup := false
		for _, d := range dirs {
			if d.sid == sid {
				dup = true
			}
		}
		if dup {
			continue
		}
		both := tp.intn(3) == 0
		first := tp.intn(2)
		for k := 0; k < 2; k++ {
			if k == 1 && !both {
				break
			}
			from := (first + k) % 2
			d := &xferDir{sid: sid, from: from}
			if !o.reliableOrderedOnly {
				d.unordered = tp.intn(2) == 0
				switch tp.intn(4) {
				case 0, 1:
					d.relType = ReliabilityTypeReliable
				case 2:
					d.relType = ReliabilityTypeRexmit
					d.relVal = pick[uint32](tp, 0, 0, 1, 2, 5)
				case 3:
					d.relType = ReliabilityTypeTimed
					d.relVal = pick[uint32](tp, 0, 50, 1000, 10000)
				}
				if o.noTimed && d.relType == ReliabilityTypeTimed {
					d.relType = ReliabilityTypeRexmit
					d.relVal = 1
				}
				if o.prFragments && d.relType == ReliabilityTypeReliable {
					d.relType = ReliabilityTypeRexmit
					d.relVal = pick[uint32](tp, 0, 0, 1)
				}
				d.setRecvParams = tp.intn(2) == 0
			}
			n := 1 + tp.intn(o.maxMsgs)
			big := tp.intn(6) == 0
			budget := o.maxBytes
			for j := 0; j < n; j++ {
				sz := sizeMix(tp, fragOf(from), maxMsgOf(from), big && j == 0)
				if o.prFragments && tp.intn(4) != 0 {
					sz = fragOf(from)*(1+tp.intn(3)) + 1 + tp.intn(fragOf(from))
					if sz > maxMsgOf(from) {
						sz = maxMsgOf(from)
					}
				}
				if budget > 0 && sz > budget {
					sz = 1 + budget/2
				}
				budget -= sz
				d.sizes = append(d.sizes, sz)
			}
			if tp.intn(3) == 0 {
				d.gaps = make([]time.Duration, len(d.sizes))
				for j := range d.gaps {
					if tp.intn(3) == 0 {
						d.gaps[j] = time.Duration(tp.intn(300)) * time.Millisecond
					}
				}
			}
			if o.dcep && tp.intn(2) == 0 {
				d.dcep = make([]bool, len(d.sizes))
				for j := range d.dcep {
					if tp.intn(5) == 0 && d.sizes[j] >= 8 {
						d.dcep[j] = true
					}
				}
			}
			d.preopen = tp.intn(3) == 0
			if tp.intn(4) == 0 {
				d.readDelay = time.Duration(1+tp.intn(50)) * time.Millisecond
			}
			d.oddWrites = o.oddWrites && tp.intn(2) == 0
			d.shortReads = tp.intn(3) == 0
			d.deadlines = o.deadlines && tp.intn(2) == 0
			if o.cbWrites {
				d.cbWrites = tp.intn(3) == 0 && !d.oddWrites && d.gaps == nil && !w.cfg.Side[from].BlockWrite
			}
			if !o.reliableOrderedOnly && tp.intn(3) == 0 && (w.params["kf_recv_unordered"] != 0 || (w.cfg.Side[0].Interleaving && w.cfg.Side[1].Interleaving)) {
				// ordered and unordered messages share the stream (only with interleaving on both
				// sides: in DATA mode this is the trigger region of known finding KF4)
				d.flip = make([]bool, len(d.sizes))
				for j := range d.flip {
					d.flip[j] = tp.intn(3) == 0
				}
			}
			if o.slowReaders && tp.intn(2) == 0 {
				d.readPause = 1 + tp.intn(5)
				d.pauseFor = time.Duration(1+tp.intn(20)) * time.Second
			}
			dirs = append(dirs, d)
		}
	}
	// Trigger regions of recorded known findings are excluded from the random search
	// (DESIGN §6.4); the witness replays re-enable them through scenario parameters.
	//   kf_recv_unordered: the receiving Stream object is configured with a different
	//                      ordering than the inbound direction uses (pion keys its
	//                      FORWARD-TSN handling on the receiver's own setting)
	//   kf_fwd_unknown:    a FORWARD-TSN can reach a stream the receiver has not created yet
	bySid := map[uint16][]*xferDir{}
	for _, d := range dirs {
		bySid[d.sid] = append(bySid[d.sid], d)
	}
	for _, d := range dirs {
		pair := bySid[d.sid]
		if w.params["kf_recv_unordered"] == 0 {
			if len(pair) == 2 {
				d.unordered = pair[0].unordered
				d.setRecvParams = false
			} else {
				d.setRecvParams = true
			}
		}
		if len(pair) == 2 {
			// mirroring would overwrite the reliability policy of the opposite direction
			d.setRecvParams = false
		}
		if w.params["kf_fwd_unknown"] == 0 && !d.reliable() {
			d.preopen = true
		}
	}
	sort.SliceStable(dirs, func(i, j int) bool {
		if dirs[i].sid != dirs[j].sid {
			return dirs[i].sid < dirs[j].sid
		}
		return dirs[i].from < dirs[j].from
	})
	return dirs
}

type xferOpts struct {
	maxStreams          int
	maxSID              int
	maxMsgs             int
	maxBytes            int
	reliableOrderedOnly bool
	noTimed             bool
	dcep                bool
	slowReaders         bool
	deadlines           bool
	oddWrites           bool
	prFragments         bool // partially reliable streams only, messages of two to four fragments
	cbWrites            bool // some senders write from the low-threshold callback (the usual WebRTC flow control)
}

// rtoMaxOf returns the configured RTO.max of an endpoint as a duration (the
// library default of 60 s when unset; RFC 9260 §16 RTO.Max).
func rtoMaxOf(c sideCfg) time.Duration {
	if c.RTOMax == 0 {
		return 60 * time.Second
	}
	return time.Duration(c.RTOMax * float64(time.Millisecond))
}

func fmtHeld(sid uint16, n, o, u, uc, om, um int) string {
	return fmt.Sprintf("[sid=%d bytes=%d ordered=%d unordered=%d loose=%d orderedMID=%d unorderedMID=%d]", sid, n, o, u, uc, om, um)
}

// oddWrite performs, with some probability, one call that must be rejected or fail
// without any side effect (C18), and checks its return values. The wire and the
// peer's history are judged by the ordinary oracles: a rejected call that left a
// trace shows up as a lost / blocked / extra message or as data on the wire.
func (x *xfer) oddWrite(d *xferDir, st *simStream, s *Stream) {
	w := x.w
	tp := w.wtape
	ep := st.ep
	op := tp.intn(8)
	if f, ok := w.params["odd_force"]; ok {
		op = f
	}
	switch op {
	case 0:
		// larger than the maximum message size
		max := int(ep.assoc.MaxMessageSize())
		m := w.newMsg(st, max+1+tp.intn(3), false)
		m.odd = "too-large"
		x.index[m.ppi] = m
		x.odd = append(x.odd, m)
		w.write(st, m)
		if m.err == nil || m.n != 0 || !errors.Is(m.err, ErrOutboundPacketTooLarge) {
			w.violate("C18", "too-large-accepted", "%s stream %d: WriteSCTP of %d bytes with MaxMessageSize %d returned n=%d err=%v", ep.name, d.sid, m.size, max, m.n, m.err)
		}
		w.probe("odd.too-large-write")
	case 1:
		// the limit follows SetMaxMessageSize
		old := ep.assoc.MaxMessageSize()
		nm := uint32(100 + tp.intn(3000))
		ep.assoc.SetMaxMessageSize(nm)
		m := w.newMsg(st, int(nm)+1, false)
		m.odd = "too-large-after-set"
		x.index[m.ppi] = m
		x.odd = append(x.odd, m)
		w.write(st, m)
		if m.err == nil || m.n != 0 {
			w.violate("C18", "too-large-accepted", "%s stream %d: after SetMaxMessageSize(%d) a write of %d bytes returned n=%d err=%v", ep.name, d.sid, nm, m.size, m.n, m.err)
		}
		ep.assoc.SetMaxMessageSize(old)
		w.probe("odd.too-large-after-set")
	case 2:
		if w.params["kf_empty_write"] == 0 && knownClasses["C18:empty-write-disturbs-stream"] {
			return // trigger region of a recorded finding
		}
		m := w.newMsg(st, 0, false)
		m.odd = "empty"
		x.index[m.ppi] = m
		x.odd = append(x.odd, m)
		d.emptyWrites++
		w.write(st, m)
		if m.n != 0 {
			w.violate("C18", "empty-write-length", "%s stream %d: WriteSCTP with an empty payload returned n=%d err=%v", ep.name, d.sid, m.n, m.err)
		}
		w.probe("odd.empty-write")
	case 3:
		if !ep.cfg.BlockWrite {
			return
		}
		// a blocking write whose deadline is already over / very near
		dl := time.Duration(pick(tp, 0, 1, 20, 200)) * time.Millisecond
		_ = s.SetWriteDeadline(time.Now().Add(dl))
		// (sometimes a DCEP message: those are ordered even on an unordered stream, so the
		// roll-back of a failed write concerns a different counter than the stream's mode suggests)
		asDCEP := d.dcep != nil && tp.intn(2) == 0
		m := w.newMsg(st, 8+tp.intn(2000), asDCEP)
		m.odd = "deadline"
		m.unordered, m.relType, m.relVal = d.curUnordered, d.relType, d.relVal
		if asDCEP {
			x.index[uint32(m.id)|0x80000000] = m
		}
		x.index[m.ppi] = m
		// (listed as an ordinary message while in progress: the peer may read it before the call returns)
		d.msgs = append(d.msgs, m)
		w.write(st, m)
		_ = s.SetWriteDeadline(time.Time{})
		if m.err != nil {
			for i, q := range d.msgs {
				if q == m {
					d.msgs = append(d.msgs[:i:i], d.msgs[i+1:]...)
					break
				}
			}
			x.odd = append(x.odd, m)
			d.failedOdd++
			if m.n != 0 {
				w.violate("C18", "failed-write-length", "%s stream %d: a blocking write that failed with %v returned n=%d", ep.name, d.sid, m.err, m.n)
			}
			w.probe("odd.write-deadline-expired")
		}
	}
}
