package sctp

// C03: no inbound bytes can crash, hang or corrupt an endpoint.
//
// A pair of real associations runs a transfer; an adversary task injects packets into one
// endpoint's transport at seeded instants (handshake, transfer with data in flight and holes in
// the receive window, stream resets, shutdown in progress). Every generated packet is classified by
// its generator:
//   inert     - malformed or semantically invalid in the sense of the property (or equivalent to
//               something the network may do: a replayed DATA / SACK / HEARTBEAT packet): the
//               transfer must complete exactly as without it, unless the endpoint answers ABORT;
//   effective - something a peer is entitled to send (ABORT, SHUTDOWN, an acknowledgement of data
//               really in flight, a FORWARD-TSN inside the window, fresh DATA, RECONFIG, ...), and
//               packets whose effect is not predicted (field mutations, chunk soup): safety only.
// Safety (all runs): no panic in any task, no lock cycle, a bounded number of loop iterations per
// scheduling step (so a forged 2^31 range cannot buy unbounded work), every packet the endpoints emit
// is well formed, white-box byte counters stay consistent, no TSN is tracked beyond the window.

import (
	"context"
	"encoding/binary"
	"errors"
	"fmt"
	"io"
	"time"
)

func init() {
	registerScenario("C03", scenarioAdversary)
}

// advMon is the (small) wire monitor of the adversary scenarios: it keeps the ground truth the
// generators need and checks only what holds whatever the adversary does.
type advMon struct {
	w         *world
	haveInit  [2]bool
	initTag   [2]uint32 // tag chosen by X: packets to X carry it
	initTSN   [2]uint32
	nextTSN   [2]uint32 // highest TSN emitted by X + 1
	haveData  [2]bool
	idata     [2]bool // X emits I-DATA
	ports     [2][2]uint16
	abortSeq  [2]int64 // event sequence number of the first ABORT emitted by X (0 = none)
	nError    [2]int
	captured  [2][]*wirePacket // emitted by X, only DATA / SACK / HEARTBEAT / FORWARD-TSN chunks
	nEmitted  [2]int
	wantAbort [2]int64 // X must answer with ABORT: sequence number of the injection
	otherCloseCause bool // something else that may legitimately close an endpoint was injected (ABORT, SHUTDOWN, unpredicted packets)
	wantWhy   [2]string
}

func (m *advMon) onEmit(p *wirePacket) {
	X := p.from
	if X > 1 {
		return
	}
	w := m.w
	m.nEmitted[X]++
	if p.decodeErr != "" {
		w.violate("C03", "malformed-emission", "%s emitted a packet the independent decoder rejects: %s (raw %x)", w.eps[X].name, p.decodeErr, p.raw)
		return
	}
	m.ports[X] = [2]uint16{p.srcPort, p.dstPort}
	replayable := len(p.chunks) > 0
	for _, c := range p.chunks {
		switch c.typ {
		case wtINIT, wtINITACK:
			m.haveInit[X] = true
			m.initTag[X] = c.initTag
			m.initTSN[X] = c.initialTSN
			if !m.haveData[X] {
				m.nextTSN[X] = c.initialTSN
			}
		case wtDATA, wtIDATA:
			m.idata[X] = c.typ == wtIDATA
			if !m.haveData[X] || wSNA32GTE(c.tsn, m.nextTSN[X]) {
				m.nextTSN[X] = c.tsn + 1
			}
			m.haveData[X] = true
		case wtABORT:
			if m.abortSeq[X] == 0 {
				m.abortSeq[X] = w.evSeq
				w.probe("abort-emitted")
			}
		case wtERROR:
			m.nError[X]++
			w.probe("error-emitted")
		}
		switch c.typ {
		case wtDATA, wtIDATA, wtSACK, wtHEARTBEAT, wtHBACK, wtFORWARDTSN, wtIFORWARDTSN:
		default:
			replayable = false
		}
	}
	if replayable && len(m.captured[X]) < 400 {
		m.captured[X] = append(m.captured[X], p)
	}
}

func (m *advMon) onDeliver(to int, p *wirePacket, data []byte) {}

func (m *advMon) onStep() {
	w := m.w
	for side, ep := range w.eps {
		a := ep.assoc
		if a == nil {
			continue
		}
		// white-box consistency that no input may break
		_, ib := accInflight(a)
		if real := accInflightActual(a); real != ib {
			w.violate("C03", "inflight-counter-corrupt", "%s: the in-flight byte counter is %d but the chunks in flight hold %d unacknowledged user bytes", ep.name, ib, real)
			return
		}
		if msg := accReceiveWindowSanity(a); msg != "" {
			w.violate("C03", "receive-tracking-corrupt", "%s: %s", ep.name, msg)
			return
		}
		if msg := accReassemblySanity(a); msg != "" {
			w.violate("C03", "reassembly-counter-corrupt", "%s: %s", ep.name, msg)
			return
		}
		if m.wantAbort[side] != 0 && m.abortSeq[side] == 0 && accState(a) == closed && m.abortSeq[1-side] == 0 && !m.otherCloseCause {
			// closed without telling the peer is not what the property promises, but closing is allowed only with the ABORT
			w.violate("C03", "wrong-kind-not-aborted", "%s closed after %s without emitting an ABORT", ep.name, m.wantWhy[side])
			return
		}
	}
}

type advPacket struct {
	raw     []byte
	class   string
	inert   bool
	abortOK bool // an ABORT reply is the documented reaction (wrong-kind chunk)
}

type adversary struct {
	w    *world
	m    *advMon
	tp   *vsimTape
	x    *xfer
	nInj map[string]int
	effective bool
	stable bool // the target stays established for the whole injection phase (state-dependent inert classes allowed)
}

func (ad *adversary) u32() uint32 { return uint32(ad.tp.intn(1<<16))<<16 | uint32(ad.tp.intn(1<<16)) }

func (ad *adversary) randBytes(n int) []byte {
	b := make([]byte, n)
	for i := range b {
		b[i] = byte(ad.tp.intn(256))
	}
	return b
}

// header builds a packet as the peer of T would.
func (ad *adversary) header(T int) *wBuilder {
	m := ad.m
	P := 1 - T
	src, dst := m.ports[P][0], m.ports[P][1]
	if src == 0 {
		src, dst = 5000, 5000
	}
	tag := m.initTag[T]
	if !m.haveInit[T] {
		tag = ad.u32()
	}
	return wNewPacket(src, dst, tag)
}

func (ad *adversary) dataChunk(b *wBuilder, idata bool, tsn uint32, sid uint16, flags uint8, n int) {
	if idata {
		b.chunk(wtIDATA, flags, wIDataValue(tsn, sid, ad.u32()%8, 53, ad.randBytes(n)))
	} else {
		b.chunk(wtDATA, flags, wDataValue(tsn, sid, uint16(ad.tp.intn(8)), 53, ad.randBytes(n)))
	}
}

var advUnknownTypes = []uint8{15, 16, 31, 63, 65, 100, 127, 128, 129, 131, 191, 193, 195, 254, 255}

// generate builds one packet for target T from the live state of the pair.
func (ad *adversary) generate(T int) advPacket {
	m, tp, w := ad.m, ad.tp, ad.w
	P := 1 - T
	a := w.eps[T].assoc
	est := a != nil && accState(a) == established && ad.stable && m.haveInit[0] && m.haveInit[1]
	var tCum, ackPoint, tNext uint32
	useI := false
	if a != nil {
		tCum, ackPoint, tNext, useI = accAdversaryView(a)
	}
	inertOnly := w.params["c03_inert_only"] != 0
	for tries := 0; tries < 50; tries++ {
		k := tp.intn(40)
		if v, ok := w.params["c03_class"]; ok {
			k = v
		}
		var p advPacket
		b := ad.header(T)
		switch k {
		case 0:
			p = advPacket{raw: ad.randBytes(pick(tp, 0, 1, 4, 11, 12, 13, 16, 20, 100, 1200, 8000)), class: "random-bytes", inert: true}
			if len(p.raw) >= 12 && p.raw[8]|p.raw[9]|p.raw[10]|p.raw[11] == 0 {
				p.raw[8] = 1
			}
		case 1:
			c := m.captured[P]
			if len(c) == 0 {
				continue
			}
			q := c[tp.intn(len(c))]
			p = advPacket{raw: append([]byte{}, q.raw[:tp.intn(len(q.raw))]...), class: "truncated-real-packet", inert: true}
		case 2:
			c := m.captured[P]
			if len(c) == 0 {
				continue
			}
			q := c[tp.intn(len(c))]
			p = advPacket{raw: append([]byte{}, q.raw...), class: "replayed-real-packet", inert: true}
		case 3, 4:
			// bad lengths with a correct checksum
			switch tp.intn(9) {
			case 0:
				b.chunkRawLen(wtSACK, 0, tp.intn(4), nil)
			case 1:
				b.chunkRawLen(wtDATA, 3, 4+tp.intn(12), ad.randBytes(tp.intn(12)))
			case 2:
				b.chunkRawLen(uint8(pick(tp, wtDATA, wtSACK, wtINIT, wtFORWARDTSN, wtRECONFIG, wtHEARTBEAT, wtABORT, wtERROR, wtIDATA)), 0, 20+tp.intn(60000), ad.randBytes(tp.intn(16)))
			case 3:
				v := wSackValue(ackPoint, 100000, nil, nil)
				binary.BigEndian.PutUint16(v[8:], uint16(1+tp.intn(5000)))
				b.chunk(wtSACK, 0, v)
			case 4:
				v := wSackValue(ackPoint, 100000, nil, nil)
				binary.BigEndian.PutUint16(v[10:], uint16(1+tp.intn(60000)))
				b.chunk(wtSACK, 0, v)
			case 5:
				v := append(wU32(ad.u32(), 100000, 0x000a000a, ad.u32()), []byte{0, 7, 0xff, 0xff, 1, 2}...)
				b.chunk(wtINIT, 0, v)
				b = wNewPacket(m.ports[P][0], m.ports[P][1], 0).chunk(wtINIT, 0, v)
			case 6:
				b.chunk(wtFORWARDTSN, 0, append(wU32(tCum), ad.randBytes(1+2*tp.intn(2))...))
			case 7:
				b.chunk(wtRECONFIG, 0, []byte{0, 13, byte(tp.intn(256)), byte(tp.intn(256)), 1, 2, 3, 4})
			case 8:
				b.chunk(wtHEARTBEAT, 0, []byte{0, 1, 0xff, 0xf0, 1, 2, 3, 4})
			}
			p = advPacket{raw: b.bytes(true), class: "bad-length", inert: true}
			if tp.intn(6) == 0 {
				// shorter than a common header, or header only
				p.raw = p.raw[:pick(tp, 1, 8, 11, 12)]
				if len(p.raw) == 12 {
					binary.LittleEndian.PutUint32(p.raw[8:], 0)
					binary.LittleEndian.PutUint32(p.raw[8:], wCRC(p.raw))
				}
				p.class = "short-packet"
			}
		case 5, 6:
			if !est {
				continue
			}
			// acknowledgement for data never sent
			cum := tNext + 10000 + uint32(tp.intn(1<<30))
			var gaps []wGap
			for i := tp.intn(4); i > 0; i-- {
				s := uint16(1 + tp.intn(1000))
				gaps = append(gaps, wGap{s, s + uint16(tp.intn(50))})
			}
			b.chunk(wtSACK, 0, wSackValue(cum, uint32(tp.intn(1<<20)), gaps, nil))
			p = advPacket{raw: b.bytes(true), class: "sack-beyond-sent", inert: true}
		case 7, 8, 9:
			if !est {
				continue
			}
			// impossible gap blocks at the current acknowledgement point
			inflight := tNext - ackPoint - 1
			var gaps []wGap
			kind := tp.intn(3)
			if kind == 2 && inflight >= 1 && inflight < 50000 {
				// a block over data really in flight, followed by an impossible one: the whole SACK is invalid
				e := uint16(1 + tp.intn(int(inflight)))
				gaps = append(gaps, wGap{1 + uint16(tp.intn(int(e))), e})
			}
			if len(gaps) > 0 {
				w.probe("forged-block-over-data-in-flight")
			}
			switch tp.intn(3) {
			case 0:
				s := uint16(2 + tp.intn(60000))
				gaps = append(gaps, wGap{s, s - 1 - uint16(tp.intn(int(s)-1))})
			case 1:
				// starts inside the in-flight range (or right above the ack point) and ends far beyond it
				if inflight > 40000 {
					continue
				}
				s := uint16(1)
				if inflight > 1 {
					s = uint16(1 + tp.intn(int(inflight)))
					w.probe("forged-block-over-data-in-flight")
				}
				gaps = append(gaps, wGap{s, uint16(inflight) + 12000 + uint16(tp.intn(10000))})
			default:
				if inflight > 40000 {
					continue
				}
				s := uint16(inflight) + 12000 + uint16(tp.intn(10000))
				gaps = append(gaps, wGap{s, s + uint16(tp.intn(100))})
			}
			if len(gaps) > 1 && tp.intn(2) == 0 {
				// the blocks in any order: an invalid SACK is invalid wherever its bad block stands
				gaps[0], gaps[len(gaps)-1] = gaps[len(gaps)-1], gaps[0]
				w.probe("impossible-block-listed-first")
			}
			b.chunk(wtSACK, 0, wSackValue(ackPoint, 1<<20, gaps, nil))
			p = advPacket{raw: b.bytes(true), class: "sack-impossible-gaps", inert: true}
		case 10, 11:
			if !est {
				continue
			}
			// forward-TSN at or behind the cumulative point
			nc := tCum - uint32(pick(tp, 0, 0, 1, 2, 100, 1<<20, 1<<30))
			var v []byte
			if useI {
				v = wU32(nc)
				for i := tp.intn(4); i > 0; i-- {
					v = append(v, byte(tp.intn(2)), byte(tp.intn(12)), 0, byte(tp.intn(2)))
					v = append(v, wU32(ad.u32())...)
				}
				b.chunk(wtIFORWARDTSN, 0, v)
			} else {
				v = wU32(nc)
				for i := tp.intn(4); i > 0; i-- {
					v = append(v, 0, byte(tp.intn(12)), byte(tp.intn(256)), byte(tp.intn(256)))
				}
				b.chunk(wtFORWARDTSN, 0, v)
			}
			p = advPacket{raw: b.bytes(true), class: "forward-tsn-behind", inert: true}
		case 12:
			t := advUnknownTypes[tp.intn(len(advUnknownTypes))]
			if est && tp.intn(2) == 0 {
				ad.dataChunk(b, useI, tCum-uint32(tp.intn(5)), uint16(tp.intn(10)), 3, 1+tp.intn(40))
			}
			b.chunk(t, uint8(tp.intn(256)), ad.randBytes(tp.intn(64)))
			p = advPacket{raw: b.bytes(true), class: fmt.Sprintf("unknown-chunk-action-%d", t>>6), inert: true}
		case 13, 14:
			// misplaced chunks
			initv := append(wU32(ad.u32()|1, uint32(1500+tp.intn(1<<20)), 0x000a000a, ad.u32()), wParamTLV(0xc000, nil)...)
			switch kk := tp.intn(8); {
			case kk == 0:
				b = wNewPacket(m.ports[P][0], m.ports[P][1], 0).chunk(wtINIT, 0, initv).chunk(wtCOOKIEACK, 0, nil)
				p.class = "init-bundled"
			case kk == 1:
				b = wNewPacket(m.ports[P][0], m.ports[P][1], ad.u32()|1).chunk(wtINIT, 0, initv)
				p.class = "init-with-tag"
			case !est:
				continue
			case kk == 2:
				b = wNewPacket(m.ports[P][0], m.ports[P][1], 0).chunk(wtINIT, 0, initv)
				p.class = "init-in-established"
			case kk == 3:
				b.chunk(wtINITACK, 0, append(initv, wParamTLV(7, ad.randBytes(8+tp.intn(40)))...))
				p.class = "initack-in-established"
			case kk == 4:
				b.chunk(wtCOOKIEACK, 0, nil)
				p.class = "cookieack-in-established"
			case kk == 5:
				b.chunk(wtSHUTDOWNCOMPLETE, uint8(tp.intn(2)), nil)
				p.class = "shutdowncomplete-in-established"
			case kk == 6:
				b.chunk(wtSHUTDOWNACK, 0, nil)
				p.class = "shutdownack-in-established"
			default:
				b.chunk(wtCOOKIEECHO, 0, ad.randBytes(4+tp.intn(60)))
				p.class = "bogus-cookie-in-established"
			}
			p.raw, p.inert = b.bytes(true), true
		case 15, 16:
			if tp.intn(2) == 0 {
				b.chunk(wtHEARTBEAT, 0, wParamTLV(1, ad.randBytes(pick(tp, 0, 1, 7, 8, 9, 40))))
				p.class = "heartbeat"
			} else {
				if !est {
					continue
				}
				b.chunk(wtHBACK, 0, wParamTLV(uint16(pick(tp, 1, 1, 2, 0x8000)), ad.randBytes(pick(tp, 0, 1, 7, 8, 8, 8, 9, 40))))
				p.class = "forged-heartbeat-ack"
			}
			p.raw, p.inert = b.bytes(true), true
		case 17:
			var v []byte
			for i := 1 + tp.intn(3); i > 0; i-- {
				body := ad.randBytes(tp.intn(20))
				l := 4 + len(body)
				if tp.intn(4) == 0 {
					l = tp.intn(70000)
				}
				v = append(v, byte(tp.intn(256)), byte(tp.intn(16)), byte(l>>8), byte(l))
				v = append(v, body...)
				for len(v)%4 != 0 {
					v = append(v, 0)
				}
			}
			b.chunk(wtERROR, 0, v)
			p = advPacket{raw: b.bytes(true), class: "error-chunk", inert: true}
		case 18, 19, 20:
			if !est {
				continue
			}
			if tp.intn(2) == 0 {
				// duplicate: at or below the cumulative point
				ad.dataChunk(b, useI, tCum-uint32(pick(tp, 0, 1, 2, 50, 1<<20, 1<<30)), uint16(tp.intn(12)), uint8(tp.intn(8)), 1+tp.intn(100))
				p.class = "data-duplicate"
			} else {
				ad.dataChunk(b, useI, tCum+uint32(1<<20)+uint32(tp.intn(1<<30)), uint16(tp.intn(12)), uint8(tp.intn(8)), 1+tp.intn(100))
				p.class = "data-beyond-window"
			}
			p.raw, p.inert = b.bytes(true), true
		case 21:
			if !est {
				continue
			}
			// reconfiguration response nobody asked for
			b.chunk(wtRECONFIG, 0, wParamTLV(16, wU32(tNext+50000+uint32(tp.intn(1<<30)), uint32(tp.intn(8)))))
			p = advPacket{raw: b.bytes(true), class: "reconfig-response-without-request", inert: true}
		case 22:
			// destination port 0: even an ABORT must be ignored
			b = wNewPacket(m.ports[P][0], 0, m.initTag[T]).chunk(wtABORT, 0, nil)
			p = advPacket{raw: b.bytes(true), class: "port-zero", inert: true}
		case 23:
			if !est {
				continue
			}
			// a wrong non-zero checksum on an otherwise effective packet
			b.chunk(wtABORT, 0, nil)
			raw := b.bytes(true)
			raw[8] ^= 0x55
			if raw[8]|raw[9]|raw[10]|raw[11] == 0 {
				raw[9] = 1
			}
			p = advPacket{raw: raw, class: "bad-checksum", inert: true}

		// ---- effective (or unpredicted) packets: safety only
		case 24:
			b.chunk(wtABORT, uint8(tp.intn(2)), ad.randBytes(4*tp.intn(4)))
			p = advPacket{raw: b.bytes(true), class: "abort"}
		case 25:
			switch tp.intn(3) {
			case 0:
				b.chunk(wtSHUTDOWN, 0, wU32(pick(tp, ackPoint, ackPoint+1, tNext-1, tNext+100, ad.u32())))
			case 1:
				b.chunk(wtSHUTDOWNACK, 0, nil)
			default:
				b.chunk(wtSHUTDOWNCOMPLETE, uint8(tp.intn(2)), nil)
			}
			p = advPacket{raw: b.bytes(true), class: "shutdown-family"}
		case 26, 27:
			// acknowledgement with arbitrary values around the in-flight range
			cum := pick(tp, ackPoint, ackPoint+1, ackPoint+uint32(tp.intn(100)), tNext-1, tNext, ackPoint-1, ackPoint-uint32(tp.intn(1<<20)))
			var gaps []wGap
			for i := tp.intn(6); i > 0; i-- {
				s := uint16(tp.intn(300))
				gaps = append(gaps, wGap{s, s + uint16(tp.intn(30))})
			}
			var dups []uint32
			for i := pick(tp, 0, 0, 1, 5, 1000, 1900); i > 0; i-- {
				dups = append(dups, pick(tp, ackPoint, tNext, ad.u32()))
			}
			b.chunk(wtSACK, 0, wSackValue(cum, pick[uint32](tp, 0, 1, 1500, 1<<20, 0xffffffff), gaps, dups))
			p = advPacket{raw: b.bytes(true), class: "sack-arbitrary"}
		case 28, 29:
			// forward-TSN inside and far beyond the window
			nc := tCum + pick[uint32](tp, 1, 2, 100, 2000, 8448, 40000, 1<<20, 1<<31-1, 1<<31, 1<<31+1)
			typ := uint8(wtFORWARDTSN)
			v := wU32(nc)
			if useI != (tp.intn(8) == 0) {
				typ = wtIFORWARDTSN
				for i := tp.intn(5); i > 0; i-- {
					v = append(v, byte(tp.intn(2)), byte(tp.intn(12)), 0, byte(tp.intn(2)))
					v = append(v, wU32(pick(tp, 0, 1, 5, ad.u32()))...)
				}
			} else {
				for i := tp.intn(5); i > 0; i-- {
					v = append(v, 0, byte(tp.intn(12)), byte(tp.intn(256)), byte(tp.intn(256)))
				}
			}
			b.chunk(typ, 0, v)
			p = advPacket{raw: b.bytes(true), class: "forward-tsn-ahead"}
			if est && (typ == wtIFORWARDTSN) != useI {
				p.class, p.abortOK = "forward-tsn-wrong-kind", true
			}
		case 30, 31:
			// fresh data (the peer is entitled to send it), also zero-length and extreme identifiers
			n := pick(tp, 0, 1, 1, 10, 100, 1100)
			tsn := tCum + uint32(1+tp.intn(64))
			sid := uint16(pick(tp, 77, 78, 0, 1, 65535))
			if useI {
				b.chunk(wtIDATA, uint8(tp.intn(16)), wIDataValue(tsn, sid, pick(tp, 0, 1, 0xffffffff, ad.u32()), pick[uint32](tp, 0, 1, 53, 0xffffffff), ad.randBytes(n)))
			} else {
				b.chunk(wtDATA, uint8(tp.intn(16)), wDataValue(tsn, sid, uint16(pick(tp, 0, 1, 65535, tp.intn(65536))), 53, ad.randBytes(n)))
			}
			p = advPacket{raw: b.bytes(true), class: "data-fresh"}
		case 32:
			if !est {
				continue
			}
			// a chunk of the kind that was not negotiated must be answered with ABORT (C17)
			tsn := tCum + uint32(1+tp.intn(8))
			ad.dataChunk(b, !useI, tsn, uint16(tp.intn(4)), 3, 1+tp.intn(50))
			p = advPacket{raw: b.bytes(true), class: "data-wrong-kind", abortOK: true}
		case 33, 34:
			var v []byte
			for i := 1 + tp.intn(2); i > 0; i-- {
				switch tp.intn(4) {
				case 0:
					body := wU32(pick(tp, tCum, tCum+1, ad.u32()), pick(tp, tNext, ad.u32()), pick(tp, tCum, tCum+100, ad.u32()))
					for j := tp.intn(4); j > 0; j-- {
						body = append(body, byte(tp.intn(2)), byte(tp.intn(12)))
					}
					v = append(v, wParamTLV(13, body)...)
				case 1:
					v = append(v, wParamTLV(16, wU32(pick(tp, tNext-1, tNext, ad.u32()), uint32(tp.intn(8))))...)
				case 2:
					v = append(v, wParamTLV(uint16(pick(tp, 14, 15, 17, 18)), ad.randBytes(4*tp.intn(5)))...)
				default:
					v = append(v, wParamTLV(uint16(tp.intn(65536)), ad.randBytes(tp.intn(24)))...)
				}
			}
			b.chunk(wtRECONFIG, 0, v)
			p = advPacket{raw: b.bytes(true), class: "reconfig-arbitrary"}
		case 35:
			// handshake chunks with arbitrary values in whatever state the target is in
			initv := append(wU32(ad.u32(), uint32(tp.intn(1<<20)), uint32(tp.intn(1<<16))<<16|uint32(tp.intn(1<<16)), ad.u32()), wParamTLV(uint16(pick(tp, 0x8008, 0xc000, 0x8001, 7, 0x8002)), ad.randBytes(tp.intn(12)))...)
			switch tp.intn(4) {
			case 0:
				b = wNewPacket(m.ports[P][0], m.ports[P][1], 0).chunk(wtINIT, 0, initv)
			case 1:
				b.chunk(wtINITACK, 0, append(initv, wParamTLV(7, ad.randBytes(tp.intn(64)))...))
			case 2:
				b.chunk(wtCOOKIEECHO, 0, ad.randBytes(tp.intn(64)))
			default:
				b.chunk(wtCOOKIEACK, 0, nil)
			}
			p = advPacket{raw: b.bytes(true), class: "handshake-arbitrary"}
		case 36, 37:
			// field-aware mutation of a real packet, checksum fixed up
			var pool []*wirePacket
			pool = append(pool, w.pkts[P]...)
			if len(pool) == 0 {
				continue
			}
			q := pool[tp.intn(len(pool))]
			raw := append([]byte{}, q.raw...)
			if len(raw) < 16 {
				continue
			}
			for i := 1 + tp.intn(3); i > 0; i-- {
				o := 12 + tp.intn(len(raw)-12)
				switch tp.intn(4) {
				case 0:
					raw[o] ^= 1 << tp.intn(8)
				case 1:
					raw[o] = byte(pick(tp, 0, 1, 0x7f, 0x80, 0xff))
				case 2:
					// a whole aligned word (TSNs, counts, lengths)
					o &^= 3
					if o+4 <= len(raw) {
						binary.BigEndian.PutUint32(raw[o:], pick(tp, 0, 1, 0x7fffffff, 0x80000000, 0xffffffff, binary.BigEndian.Uint32(raw[o:])+uint32(tp.intn(5))-2))
					}
				default:
					raw[o] = byte(tp.intn(256))
				}
			}
			binary.LittleEndian.PutUint32(raw[8:], 0)
			binary.LittleEndian.PutUint32(raw[8:], wCRC(raw))
			p = advPacket{raw: raw, class: "mutated-real-packet"}
		case 38:
			// a structured chunk whose declared length is a few bytes off its content: it ends inside the
			// padding of its last element, inside the element, or a few stray bytes behind it
			unpadded := func(typ uint16, val []byte) []byte { return wParamTLV(typ, val)[:4+len(val)] }
			// the same for an element inside a chunk whose own length is consistent: the parameter's declared length
			// is a few bytes off its content (odd, header-only, inside a fixed field), padded to the boundary
			paramOff := func(typ uint16, val []byte, e int) []byte {
				n := len(val) + e
				if n < 0 {
					n = 0
				}
				c := append([]byte{}, val...)
				if e < 0 {
					c = c[:n]
				} else {
					c = append(c, ad.randBytes(e)...)
				}
				out := append([]byte{byte(typ >> 8), byte(typ), byte((4 + n) >> 8), byte(4 + n)}, c...)
				for len(out)%4 != 0 {
					out = append(out, 0)
				}
				return out
			}
			var typ uint8
			var v []byte
			paramEdge := false
			switch tp.intn(10) {
			case 7, 8, 9:
				paramEdge = true
				e := pick(tp, -3, -2, -1, 1, 2, 3)
				switch tp.intn(5) {
				case 0, 1:
					body := wU32(pick(tp, tCum, ad.u32()), pick(tp, tNext, ad.u32()), pick(tp, tCum, ad.u32()))
					for j := tp.intn(4); j > 0; j-- {
						body = append(body, 0, byte(tp.intn(12)))
					}
					typ, v = wtRECONFIG, paramOff(13, body, e)
					if tp.intn(3) == 0 {
						v = append(wParamTLV(13, body), paramOff(16, wU32(ad.u32(), uint32(tp.intn(8))), e)...)
					}
				case 2:
					typ, v = wtRECONFIG, paramOff(uint16(pick(tp, 14, 15, 16, 17, 18)), ad.randBytes(4*(1+tp.intn(4))), e)
				case 3:
					typ, v = wtERROR, paramOff(uint16(1+tp.intn(13)), ad.randBytes(4*tp.intn(4)), e)
				default:
					typ, v = wtHEARTBEAT, paramOff(1, ad.randBytes(4*tp.intn(4)), e)
				}
			case 0, 1:
				body := wU32(pick(tp, tCum, ad.u32()), pick(tp, tNext, ad.u32()), pick(tp, tCum, ad.u32()))
				for j := 1 + 2*tp.intn(3); j > 0; j-- {
					body = append(body, 0, byte(tp.intn(12)))
				}
				typ, v = wtRECONFIG, unpadded(13, body)
				if tp.intn(3) == 0 {
					v = append(wParamTLV(13, body), unpadded(16, wU32(ad.u32(), uint32(tp.intn(8))))...)
				}
			case 2:
				typ, v = wtERROR, unpadded(uint16(1+tp.intn(13)), ad.randBytes(1+tp.intn(9)))
			case 3:
				typ, v = wtHEARTBEAT, unpadded(1, ad.randBytes(1+2*tp.intn(6)))
			case 4:
				v = wU32(tCum - uint32(tp.intn(3)))
				for j := tp.intn(4); j > 0; j-- {
					v = append(v, 0, byte(tp.intn(12)), byte(tp.intn(256)), byte(tp.intn(256)))
				}
				typ = wtFORWARDTSN
			case 5:
				typ, v = wtSACK, wSackValue(ackPoint, 100000, nil, nil)
			default:
				typ, v = uint8(0xc0|tp.intn(64)), unpadded(uint16(tp.intn(65536)), ad.randBytes(1+tp.intn(9)))
				if typ == wtIFORWARDTSN || typ == wtFORWARDTSN {
					typ = 0xfe
				}
			}
			d := pick(tp, -3, -2, -1, 1, 2, 3)
			if paramEdge {
				d = 0
			}
			n := len(v) + d
			if n < 0 {
				n = 0
			}
			if d < 0 {
				v = v[:n]
			} else {
				v = append(v, ad.randBytes(d)...)
			}
			b.chunkRawLen(typ, 0, 4+n, v)
			if tp.intn(3) == 0 {
				// decoding must resume on the 4-byte boundary behind the declared length
				b.chunk(wtSACK, 0, wSackValue(ackPoint, 100000, nil, nil))
			}
			p = advPacket{raw: b.bytes(true), class: "length-edge"}
		default:
			// chunk soup with a valid checksum
			for i := 1 + tp.intn(4); i > 0; i-- {
				t := uint8(pick(tp, wtDATA, wtINIT, wtINITACK, wtSACK, wtHEARTBEAT, wtHBACK, wtABORT, wtSHUTDOWN, wtSHUTDOWNACK, wtERROR, wtCOOKIEECHO, wtCOOKIEACK, wtSHUTDOWNCOMPLETE, wtIDATA, wtRECONFIG, wtFORWARDTSN, wtIFORWARDTSN, tp.intn(256)))
				b.chunk(t, uint8(tp.intn(256)), ad.randBytes(4*tp.intn(12)))
			}
			p = advPacket{raw: b.bytes(true), class: "chunk-soup"}
		}
		if p.raw == nil {
			continue
		}
		if inertOnly && !p.inert {
			continue
		}
		return p
	}
	return advPacket{raw: []byte{1, 2, 3}, class: "random-bytes", inert: true}
}

// inject hands one packet to T's transport.
func (ad *adversary) inject(T int, p advPacket) {
	w := ad.w
	ad.nInj[p.class]++
	w.probe("inject." + p.class)
	if !p.inert {
		ad.effective = true
	}
	switch p.class {
	case "abort", "shutdown-family", "chunk-soup", "mutated-real-packet", "handshake-arbitrary":
		ad.m.otherCloseCause = true
	}
	if p.abortOK && ad.m.wantAbort[T] == 0 {
		ad.m.wantAbort[T] = w.evSeq + 1
		ad.m.wantWhy[T] = "a " + p.class + " chunk"
	}
	if w.verbose != nil {
		s := fmt.Sprintf("%x", p.raw)
		if len(s) > 160 {
			s = s[:160] + "..."
		}
		if q, err := wDecodePacket(p.raw); err == nil && q != nil {
			s = q.summary()
		}
		w.verbose(fmt.Sprintf("INJECT to %s class=%s inert=%v: %s", w.eps[T].name, p.class, p.inert, s))
	}
	w.sim.trace.addString("inject")
	w.sim.trace.addBytes(p.raw)
	w.net.inject(w.now(), w.eps[T].conn, p.raw)
}

func scenarioAdversary(w *world) {
	cfg := genConfig(w, cfgOpts{wrapBias: true, maxLossPPM: 200000})
	w.setup(cfg)
	w.deadlockProp = "C03"
	tp := w.atape
	x := newXfer(w)
	x.hostile = true
	m := &advMon{w: w}
	w.mons = append(w.mons, m)
	ad := &adversary{w: w, m: m, tp: tp, x: x, nInj: map[string]int{}}
	sit := tp.intn(10) // 0: during the handshake, 1: shutdown in progress, 2: stream resets, else: transfer
	if v, ok := w.params["c03_sit"]; ok {
		sit = v
	}
	sweep := w.params["c03_sweep"] != 0
	if sweep {
		// systematic leg: the cell (generator class x situation) follows from the seed, so that a batch of
		// consecutive seeds covers every cell equally often
		cell := int(w.seed % 160)
		sit = cell / 40
		w.params = mergeParams(map[string]int{"c03_class": cell % 40, "c03_inert_only": 0}, w.params)
		w.params["c03_inert_only"] = 0
		w.probe(fmt.Sprintf("cell-sit%d-class%02d", sit, cell%40))
	}
	ad.stable = sit >= 2
	if tp.intn(3) > 0 && w.params["c03_inert_only"] == 0 && !sweep {
		w.params = mergeParams(map[string]int{"c03_inert_only": 1}, w.params)
	}
	inertOnly := w.params["c03_inert_only"] != 0
	nPackets := 1 + tp.intn(50)
	if sweep {
		nPackets = 1 + tp.intn(4)
	}
	injectSome := func(name string, n int, maxGap int) {
		w.sim.spawnClient(name, "adv", func() {
			for i := 0; i < n; i++ {
				h := vsimBlocking("client.sleep")
				time.Sleep(time.Duration(tp.intn(maxGap)) * time.Millisecond)
				vsimWoke(h)
				if w.tornDown || w.stopped() {
					return
				}
				T := tp.intn(2)
				if w.eps[T].conn == nil {
					continue
				}
				ad.inject(T, ad.generate(T))
			}
		})
	}
	if sit == 0 {
		// the adversary talks during the handshake (cookieWait / cookieEchoed / closed server)
		injectSome("adversary.handshake", 1+tp.intn(8), 400)
		w.probe("situation-handshake")
	}
	w.net.faultsOn = sit == 0 && tp.intn(2) == 0
	ok := w.connect(300 * time.Second)
	if w.stopped() {
		return
	}
	if !ok || w.eps[0].connErr != nil || w.eps[1].connErr != nil {
		if sit == 0 && ad.effective {
			// forged handshake chunks may legitimately derail the handshake: safety only
			w.probe("handshake-derailed-by-effective-packet")
			w.quiesce(5 * time.Second)
			return
		}
		w.violate("C03", "handshake-failed", "handshake failed (%v / %v) although only inert packets were injected: %v", w.eps[0].connErr, w.eps[1].connErr, ad.nInj)
		return
	}
	w.net.faultsOn = true
	xo := xferOpts{maxStreams: 4, maxSID: 9, maxMsgs: 12, maxBytes: 200000, reliableOrderedOnly: false, dcep: false, slowReaders: tp.intn(3) == 0}
	if thorough() {
		xo.maxStreams, xo.maxMsgs, xo.maxBytes = 8, 40, 1000000
	}
	x.dirs = genDirs(w, xo)
	for _, d := range x.dirs {
		// reliable streams only: the end-to-end oracle is exact
		d.relType, d.relVal = ReliabilityTypeReliable, 0
		d.flip = nil
		if tp.intn(2) == 0 && d.gaps == nil {
			d.gaps = make([]time.Duration, len(d.sizes))
			for j := range d.gaps {
				d.gaps[j] = time.Duration(tp.intn(60)) * time.Millisecond
			}
		}
	}
	for _, d := range x.dirs {
		rb := int(w.cfg.Side[1-d.from].RecvBuf)
		if rb == 0 {
			rb = 1024 * 1024
		}
		lim := rb / 2 / (len(x.dirs) + 1)
		for i := range d.sizes {
			if d.sizes[i] > lim {
				d.sizes[i] = 1 + lim/2
			}
		}
	}
	st := map[*xferDir]*dirState{}
	x.onRead = func(d *xferDir, r *readRec) {
		if ad.effective {
			return // forged data / acknowledgements may legitimately change what is delivered
		}
		checkRead(w, st, d, r)
	}
	x.start()
	injectSome("adversary", nPackets, 120)
	var sd *shutdownCall
	switch sit {
	case 1:
		sd = &shutdownCall{side: tp.intn(2)}
		ep := w.eps[sd.side]
		w.sim.spawnClient("shutdown."+ep.name, ep.name, func() {
			h := vsimBlocking("client.sleep")
			time.Sleep(time.Duration(tp.intn(800)) * time.Millisecond)
			vsimWoke(h)
			c := w.beginCall(ep, "Shutdown", -1)
			err := ep.assoc.Shutdown(context.Background())
			w.endCall(c, err)
			sd.returned, sd.err = true, err
		})
		w.probe("situation-shutdown")
	case 2:
		for _, d := range x.dirs {
			d := d
			w.sim.spawnClient(fmt.Sprintf("closer.%s.%d", w.eps[d.from].name, d.sid), w.eps[d.from].name, func() {
				for !d.writerDone {
					h := vsimBlocking("client.sleep")
					time.Sleep(10 * time.Millisecond)
					vsimWoke(h)
				}
				if d.tx != nil {
					_ = d.tx.s.Close()
				}
			})
		}
		w.probe("situation-stream-reset")
	}
	phase := time.Duration(2+tp.intn(20)) * time.Second
	w.run(func() bool { return false }, w.now()+phase)
	if w.stopped() {
		return
	}
	w.net.heal()
	x.healAt = w.now()
	rmax := rtoMaxOf(w.cfg.Side[0])
	if r := rtoMaxOf(w.cfg.Side[1]); r > rmax {
		rmax = r
	}
	total := 0
	for _, d := range x.dirs {
		for _, n := range d.sizes {
			total += n
		}
	}
	lat := time.Duration(w.cfg.Fault[0].LatencyUs+w.cfg.Fault[0].JitterUs) * time.Microsecond
	bound := 8*rmax + time.Duration(total/1000+len(x.dirs)*12+1)*(2*lat+200*time.Millisecond)*2
	for _, d := range x.dirs {
		bound += d.pauseFor + time.Duration(len(d.sizes))*d.readDelay
	}
	aborted := func() bool {
		return m.abortSeq[0] != 0 || m.abortSeq[1] != 0
	}
	done := func() bool {
		if aborted() || ad.effective {
			return true
		}
		if sit == 1 {
			return sd.returned
		}
		return x.writersDone() && x.reliableDelivered() && accBufferedAmount(w.eps[0].assoc) == 0 && accBufferedAmount(w.eps[1].assoc) == 0
	}
	r := w.run(done, w.now()+bound)
	if w.stopped() {
		return
	}
	// the documented reaction to a chunk of the wrong kind
	for T := 0; T < 2; T++ {
		if m.wantAbort[T] != 0 && m.abortSeq[T] == 0 && m.abortSeq[1-T] == 0 && accState(w.eps[T].assoc) == established && sit >= 2 && !injectedClass(ad, "abort", "shutdown-family", "chunk-soup", "mutated-real-packet", "handshake-arbitrary") {
			w.run(nil, w.now()+2*time.Second)
			if m.abortSeq[T] == 0 && accState(w.eps[T].assoc) == established {
				w.violate("C03", "wrong-kind-not-aborted", "%s received %s (interleaving negotiated: %v) and neither answered with an ABORT nor closed", w.eps[T].name, m.wantWhy[T], w.cfg.Side[0].Interleaving && w.cfg.Side[1].Interleaving)
				return
			}
		}
	}
	if ad.effective || aborted() {
		// safety only: let everything settle and look for late trouble
		w.probe("effective-run")
		w.run(nil, w.now()+rmax+5*time.Second)
		return
	}
	w.probe("inert-only-run")
	if inertOnly && r != stopCond {
		desc := ""
		for _, ep := range w.eps {
			desc += fmt.Sprintf("%s: state=%s buffered=%d %s; ", ep.name, accStateName(ep.assoc), accBufferedAmount(ep.assoc), accTimers(ep.assoc))
		}
		nd := 0
		for _, d := range x.dirs {
			for _, q := range d.msgs {
				if q.done && q.err == nil && q.delivered == 0 {
					nd++
				}
			}
		}
		w.violate("C03", "transfer-disturbed-by-inert-packets", "%v after the network healed the transfer is not complete (%d accepted messages undelivered; situation %d) although only inert packets were injected %v: %s", bound, nd, sit, ad.nInj, desc)
		return
	}
	if sit == 1 {
		return
	}
	// end state: every accepted message exactly once, nothing held, nothing buffered
	for _, d := range x.dirs {
		for _, q := range d.msgs {
			if q.done && q.err != nil {
				w.violate("C03", "write-failed-after-inert-packets", "write of message %d failed (%v) although only inert packets were injected %v", q.id, q.err, ad.nInj)
				return
			}
			if q.done && q.delivered != 1 && sit != 2 {
				w.violate("C03", "delivery-disturbed-by-inert-packets", "message %d (stream %d) was delivered %d times although only inert packets were injected %v", q.id, q.sid, q.delivered, ad.nInj)
				return
			}
		}
	}
	w.quiesce(3 * time.Second)
}

func injectedClass(ad *adversary, classes ...string) bool {
	for _, c := range classes {
		if ad.nInj[c] > 0 {
			return true
		}
	}
	return false
}

// ---------------------------------------------------------------- C11: a sender that ignores the window

func init() { registerScenario("C11h", scenarioHostileSender) }

// scenarioHostileSender: the real peer of B stays silent; the adversary, writing as that peer, pours
// DATA into B without ever looking at the advertised window: fragments of messages that never end,
// on many streams, in order, with holes, far above the cumulative point. The application on B reads
// nothing (or slowly). After every injected packet: nothing is tracked beyond the window, a chunk
// that arrived while the advertised window was zero is kept only if it fills a hole below the highest
// TSN received, and the bytes held stay below buffer + one chunk + the hole-filling chunks.
func scenarioHostileSender(w *world) {
	cfg := genConfig(w, cfgOpts{wrapBias: true, noFaults: true})
	for i := range cfg.Fault {
		cfg.Fault[i] = faultCfgJSON{LatencyUs: 1000}
	}
	w.setup(cfg)
	w.deadlockProp = "C03"
	tp := w.atape
	x := newXfer(w)
	x.hostile = true
	m := &advMon{w: w}
	w.mons = append(w.mons, m)
	ad := &adversary{w: w, m: m, tp: tp, x: x, nInj: map[string]int{}}
	w.net.faultsOn = false
	if !w.connect(120*time.Second) || w.eps[0].connErr != nil || w.eps[1].connErr != nil {
		if w.viol == nil && w.aborted == "" {
			w.violate("C04", "no-faults-handshake", "fault-free handshake failed: %v / %v", w.eps[0].connErr, w.eps[1].connErr)
		}
		return
	}
	T := 1
	ep := w.eps[T]
	a := ep.assoc
	rb := int(cfg.Side[T].RecvBuf)
	if rb == 0 {
		rb = 1024 * 1024
	}
	// the application accepts the streams and may read slowly, or not at all
	reading := tp.intn(3) == 0
	w.sim.spawnClient("accept.B", "B", func() {
		for {
			s, err := a.AcceptStream()
			if err != nil {
				return
			}
			if !reading {
				continue
			}
			w.sim.spawnClient(fmt.Sprintf("reader.B.%d", s.StreamIdentifier()), "B", func() {
				buf := make([]byte, 70000)
				for {
					h := vsimBlocking("client.sleep")
					time.Sleep(time.Duration(1+tp.intn(50)) * time.Millisecond)
					vsimWoke(h)
					if _, _, err := s.ReadSCTP(buf); err != nil && !errors.Is(err, io.ErrShortBuffer) {
						return
					}
				}
			})
		}
	})
	_, _, _, useI := accAdversaryView(a)
	win := accTSNWindow(a)
	nPackets := 200 + tp.intn(3000)
	if rb <= 65536 {
		nPackets = 100 + tp.intn(600)
	}
	maxChunk := 0
	gapFillBytes := 0
	next := uint32(0) // next fresh TSN offset above the initial cumulative point
	base, _, _, _ := accAdversaryView(a)
	var holes []uint32
	done := false
	w.sim.spawnClient("hostile-sender", "adv", func() {
		defer func() { done = true }()
		for i := 0; i < nPackets; i++ {
			if w.tornDown || w.stopped() || accState(a) != established {
				return
			}
			cum, _, _, _ := accAdversaryView(a)
			// choose the TSN
			var tsn uint32
			kind := tp.intn(12)
			switch {
			case kind == 0 && len(holes) > 0:
				j := tp.intn(len(holes))
				tsn = holes[j]
				holes = append(holes[:j], holes[j+1:]...)
			case kind == 1:
				tsn = cum + win + uint32(tp.intn(5)) - 2 // around the edge of the window
			case kind == 2:
				tsn = cum + uint32(tp.intn(int(win)+100))
			case kind == 3:
				next++
				holes = append(holes, base+next) // leave a hole
				next++
				tsn = base + next
			default:
				next++
				tsn = base + next
			}
			n := pick(tp, 1, 100, 1000, 1100, 1150)
			if n > maxChunk {
				maxChunk = n
			}
			sid := uint16(tp.intn(6))
			flags := uint8(pick(tp, 2, 0, 0, 0, 1, 3)) // mostly beginnings and middles: the messages never complete
			if tp.intn(2) == 0 {
				flags |= 4
			}
			b := ad.header(T)
			if useI {
				b.chunk(wtIDATA, flags, wIDataValue(tsn, sid, uint32(tp.intn(4)), uint32(tp.intn(50)), ad.randBytes(n)))
			} else {
				b.chunk(wtDATA, flags, wDataValue(tsn, sid, uint16(tp.intn(4)), 53, ad.randBytes(n)))
			}
			heldBefore := accCounterSum(a)
			credit := rb - heldBefore
			tail, haveTail := accLastTSNReceived(a)
			tracked := accTSNTracked(a, tsn)
			cumBefore := cum
			ad.inject(T, advPacket{raw: b.bytes(true), class: "hostile-data", inert: false})
			// let B process it
			h := vsimBlocking("client.sleep")
			time.Sleep(3 * time.Millisecond)
			vsimWoke(h)
			heldAfter := accCounterSum(a)
			stored := !tracked && accTSNTrackedOrBelow(a, tsn) && wSNA32GT(tsn, cumBefore)
			if !reading && heldAfter > heldBefore {
				stored = true // kept by the stream even if the tracker does not list it
			}
			if wSNA32GT(tsn, cumBefore+win) && stored {
				w.violate("C11", "stored-beyond-window", "B kept DATA with TSN %d although its cumulative TSN was %d and the window is %d TSNs", tsn, cumBefore, win)
				return
			}
			if credit <= 0 && stored && !(haveTail && wSNA32LT(tsn, tail)) && !reading {
				w.violate("C11", "accepted-with-zero-window", "B kept DATA with TSN %d (%d bytes) although it held %d of %d buffer bytes (advertised window zero) and the highest TSN received was %d: only chunks filling holes below it may be kept", tsn, n, heldBefore, rb, tail)
				return
			}
			if credit <= 0 && stored {
				gapFillBytes += n
				w.probe("hole-filled-at-zero-window")
			}
			if credit <= 0 {
				w.probe("zero-window-reached")
			}
			if heldAfter > rb+maxChunk+gapFillBytes && !reading {
				w.violate("C11", "memory-not-bounded", "B holds %d bytes for inbound data: more than its buffer of %d plus one chunk (%d) plus the hole-filling chunks (%d)", heldAfter, rb, maxChunk, gapFillBytes)
				return
			}
		}
	})
	w.run(func() bool { return done }, w.now()+time.Duration(nPackets)*10*time.Millisecond+10*time.Second)
	if w.stopped() {
		return
	}
	w.quiesce(2 * time.Second)
}
