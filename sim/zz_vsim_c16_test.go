package sctp

// C16: sequence-number wrap-around is invisible. Shifted twin runs: the same seed
// (same workload, faults, schedule) is executed with different initial TSNs and
// different SSN / MID bases; the canonicalised observable histories (every TSN /
// RSN / SSN / MID rewritten as an offset from its starting value) must be identical.

import (
	"fmt"
	"strings"
	"time"
)

func init() {
	registerScenario("C16", scenarioWrapTwin)
	// C16r: the stream close / re-open scenario of C14 as a shifted twin (request sequence numbers
	// and reset cut-off TSNs cross 2^32); SSN / MID spaces start at 0 as a re-opened stream must.
	registerScenario("C16r", scenarioReset)
	c16 := c16Twin(true)
	registerTwin("C16", c16)
	registerTwin("C16r", c16Twin(false))
	// C16s: the graceful-shutdown scenario of C08 as a shifted twin (the cumulative TSN carried by SHUTDOWN, T2)
	registerScenario("C16s", scenarioShutdown)
	registerTwin("C16s", c16Twin(false))
}

func c16Twin(shiftStreams bool) twinDef {
	return twinDef{
		asymmetric: true,
		variants: func(seed uint64, params map[string]int) (map[string]int, map[string]int) {
			a, b := copyParams(params), copyParams(params)
			h := vsimNewTape("c16", seed)
			if _, given := a["tsn0"]; !given {
				// primary: close to the wrap; reference: far from it
				off := func() int {
					switch h.intn(4) {
					case 0:
						return pick(h, 1, 2, 63, 64, 65, 127, 128, 4095, 4096, 4097, 8447, 8448, 8449)
					case 1:
						return 1 + h.intn(200)
					default:
						return 1 + h.intn(9000)
					}
				}
				a["tsn0"] = int(uint32(0 - uint32(off())))
				a["tsn1"] = int(uint32(0 - uint32(off())))
				a["ssn"] = int(uint16(0 - uint16(pick(h, 1, 2, 3, 10, 100))))
				a["mid"] = int(uint32(0 - uint32(pick(h, 1, 2, 3, 10, 100))))
				if !shiftStreams {
					a["ssn"], a["mid"] = 0, 0
				}
			}
			b["tsn0"] = 1000000 + h.intn(1000000)
			b["tsn1"] = 2000000000 + h.intn(1000000)
			b["ssn"] = 0
			b["mid"] = 0
			b["c16_ref"] = 1
			return a, b
		},
		verdict: func(a map[string]int, ra, rb *runResult) (string, string, string) {
			return "C16", "behaviour-depends-on-sequence-values", fmt.Sprintf("with initial TSNs %d / %d (2^32-%d / 2^32-%d), SSN base %d and MID base %d the run differs from the same run far away from any wrap",
				a["tsn0"], a["tsn1"], uint32(0-uint32(a["tsn0"])), uint32(0-uint32(a["tsn1"])), a["ssn"], a["mid"])
		},
	}
}

// canonPacket renders an emitted packet with every sequence number as an offset from its base.
func (w *world) canonPacket(p *wirePacket) string {
	mon := w.wm
	self, peer := mon.s[p.from], mon.s[1-p.from]
	bSelf, bPeer := self.initialTSN, peer.initialTSN
	ssn0 := uint16(w.params["ssn"])
	mid0 := uint32(w.params["mid"])
	var sb strings.Builder
	fmt.Fprintf(&sb, "len=%d vtag=%08x", len(p.raw), p.vtag)
	for _, c := range p.chunks {
		switch c.typ {
		case wtDATA:
			fmt.Fprintf(&sb, "|DATA t+%d s%d ssn+%d ppi%d %v%v%v n%d", c.tsn-bSelf, c.sid, c.ssn-ssn0, c.ppi, c.begin, c.end, c.unordered, len(c.userData))
		case wtIDATA:
			fmt.Fprintf(&sb, "|IDATA t+%d s%d mid+%d fsn%d ppi%d %v%v%v n%d", c.tsn-bSelf, c.sid, c.mid-mid0, c.fsn, c.ppi, c.begin, c.end, c.unordered, len(c.userData))
		case wtSACK:
			fmt.Fprintf(&sb, "|SACK cum+%d arwnd%d gaps%v dups[", int32(c.cumTSN-bPeer), c.arwnd, c.gaps)
			for _, d := range c.dups {
				fmt.Fprintf(&sb, "+%d ", int32(d-bPeer))
			}
			sb.WriteString("]")
		case wtINIT, wtINITACK:
			fmt.Fprintf(&sb, "|%s tag%08x arwnd%d np%d", wtName(c.typ), c.initTag, c.arwnd, len(c.params))
		case wtFORWARDTSN:
			fmt.Fprintf(&sb, "|FWD cum+%d [", int32(c.newCumTSN-bSelf))
			for _, f := range c.fwdStreams {
				fmt.Fprintf(&sb, "s%d ssn+%d ", f.sid, f.ssn-ssn0)
			}
			sb.WriteString("]")
		case wtIFORWARDTSN:
			fmt.Fprintf(&sb, "|IFWD cum+%d [", int32(c.newCumTSN-bSelf))
			for _, f := range c.fwdStreams {
				fmt.Fprintf(&sb, "s%d u%v mid+%d ", f.sid, f.unordered, f.mid-mid0)
			}
			sb.WriteString("]")
		case wtRECONFIG:
			sb.WriteString("|RECONFIG")
			for _, r := range c.reconfig {
				if r.typ == 13 {
					fmt.Fprintf(&sb, " req rsn+%d last+%d sids%v", r.reqSN-bSelf, int32(r.lastTSN-bSelf), r.sids)
				} else if r.typ == 16 {
					fmt.Fprintf(&sb, " resp rsn+%d res%d", r.respSN-bPeer, r.result)
				}
			}
		case wtSHUTDOWN:
			fmt.Fprintf(&sb, "|SHUTDOWN cum+%d", int32(c.cumTSN-bPeer))
		default:
			fmt.Fprintf(&sb, "|%s n%d", wtName(c.typ), len(c.value))
		}
	}
	return sb.String()
}

// seqShiftConfig turns a run into one half of a shifted twin pair when the twin parameters are
// present: forced initial TSNs, deterministic schedule, canonicalised emission log.
func seqShiftConfig(w *world, cfg *runConfig) bool {
	if _, ok := w.params["tsn0"]; !ok {
		return false
	}
	cfg.YieldPPM, cfg.SwitchPPM = 0, 0
	for i := range cfg.Side {
		cfg.Side[i].ForceTSN = true
		cfg.Side[i].InitialTSN = uint32(w.params[fmt.Sprintf("tsn%d", i)])
	}
	w.canonEmit = true
	return true
}

func scenarioWrapTwin(w *world) {
	cfg := genConfig(w, cfgOpts{wrapBias: false, maxLossPPM: 250000})
	seqShiftConfig(w, cfg)
	w.setup(cfg)
	w.sim.noPerm = true
	x := newXfer(w)
	mon := w.installMonitor(x)
	w.net.faultsOn = false
	if !w.connect(120*time.Second) || w.eps[0].connErr != nil || w.eps[1].connErr != nil {
		if w.viol == nil && w.aborted == "" {
			w.violate("C04", "no-faults-handshake", "fault-free handshake failed: %v / %v", w.eps[0].connErr, w.eps[1].connErr)
		}
		return
	}
	w.net.faultsOn = true
	xo := xferOpts{maxStreams: 4, maxSID: 9, maxMsgs: 14, maxBytes: 300000, reliableOrderedOnly: w.ctape.intn(2) == 0, dcep: true, slowReaders: w.ctape.intn(3) == 0}
	if thorough() {
		xo.maxStreams, xo.maxMsgs, xo.maxBytes = 8, 60, 2000000
	}
	x.dirs = genDirs(w, xo)
	// both ends of every stream start their SSN / MID spaces at the base of this run
	x.seqBase = true
	for _, d := range x.dirs {
		d.preopen = true
	}
	w.probe(fmt.Sprintf("tsn-offset-bucket-%d", bucket(int(uint32(0-cfg.Side[0].InitialTSN)))))
	runXfer(w, x, mon, false, true)
}

// dSeqShift: one lost DATA packet in a paced sequence of small messages; the primary run has
// its TSN spaces in the upper half of the 32-bit range (far from any wrap), the reference run in
// the lower half. Witness of F10 (RACK reordering high-watermark started at TSN 0).
func dSeqShift(w *world) {
	cfg := directedConfig(w, false)
	for i := range cfg.Side {
		cfg.Side[i].ForceTSN = true
		cfg.Side[i].InitialTSN = uint32(w.params[fmt.Sprintf("tsn%d", i)])
	}
	w.canonEmit = true
	x, mon, ok := directedStart(w, cfg)
	if !ok {
		return
	}
	w.sim.noPerm = true
	w.params["phase_ms"] = 3000
	gaps := make([]time.Duration, 16)
	sizes := make([]int, 16)
	for i := range gaps {
		gaps[i], sizes[i] = 2*time.Millisecond, 10
	}
	x.dirs = []*xferDir{{sid: 1, from: 0, sizes: sizes, gaps: gaps, preopen: true}}
	x.seqBase = true
	n := 0
	w.net.filter = func(dir int, idx int, p *wirePacket) planAction {
		if dir == 0 && len(p.chunks) > 0 && p.chunks[0].isData() {
			n++
			if n == 4 {
				return planDrop
			}
		}
		return planNone
	}
	runXfer(w, x, mon, false, false)
}

func init() {
	registerScenario("D_seq_shift", dSeqShift)
	registerTwin("D_seq_shift", twinDef{
		asymmetric: true,
		variants: func(seed uint64, params map[string]int) (map[string]int, map[string]int) {
			a, b := copyParams(params), copyParams(params)
			a["tsn0"], a["tsn1"], a["ssn"], a["mid"] = 0x90000000, 0xA0000000, 0, 0
			b["tsn0"], b["tsn1"], b["ssn"], b["mid"] = 0x10000000, 0x20000000, 0, 0
			return a, b
		},
		verdict: func(a map[string]int, ra, rb *runResult) (string, string, string) {
			return "C16", "behaviour-depends-on-sequence-values", "initial TSNs 0x90000000 / 0xA0000000 behave differently from 0x10000000 / 0x20000000"
		},
	})
}

// dSerialArithmetic: auxiliary algebraic check of the comparison helpers every sequence comparison
// goes through (no schedule, clock or fault in it: this part of C16 is a pure function and is
// checked by enumeration, not by simulation). Each run covers a slice of the 16-bit space
// exhaustively (64 consecutive seeds cover all 2^32 pairs) and a seeded sample of 32-bit pairs
// around every power of two, the half-space boundary and the wrap.
func dSerialArithmetic(w *world) {
	// independent reference (RFC 1982) on wide integers
	ref := func(a, b uint64, bits uint) int { // -1 before, 0 equal, +1 after, 2 undefined (exactly half)
		m := uint64(1) << bits
		d := (b + m - a) % m
		switch {
		case d == 0:
			return 0
		case d < m/2:
			return -1
		case d > m/2:
			return 1
		}
		return 2
	}
	bad := func(bits int, a, b uint64, what string) {
		w.violate("C16", "serial-arithmetic", "%d-bit comparison helpers: a=%d b=%d: %s", bits, a, b, what)
	}
	slice := uint32(w.seed % 64)
	for a := slice * 1024; a < (slice+1)*1024; a++ {
		for b := uint32(0); b < 65536; b++ {
			x, y := uint16(a), uint16(b)
			r := ref(uint64(a), uint64(b), 16)
			lt, lte, gt, gte, eq := sna16LT(x, y), sna16LTE(x, y), sna16GT(x, y), sna16GTE(x, y), sna16EQ(x, y)
			if r != 2 {
				if lt != (r == -1) || gt != (r == 1) || eq != (r == 0) || lte != (r <= 0) || gte != (r >= 0) {
					bad(16, uint64(a), uint64(b), fmt.Sprintf("LT=%v LTE=%v GT=%v GTE=%v EQ=%v, reference relation %d", lt, lte, gt, gte, eq, r))
					return
				}
			}
			// shift invariance (also at exactly half the space)
			s := uint16(a*40503 + b*3 + 1)
			if lt != sna16LT(x+s, y+s) || gt != sna16GT(x+s, y+s) || lte != sna16LTE(x+s, y+s) || gte != sna16GTE(x+s, y+s) {
				bad(16, uint64(a), uint64(b), fmt.Sprintf("the answer changes when both are shifted by %d", s))
				return
			}
		}
	}
	tp := w.wtape
	var diffs []uint32
	for k := 0; k < 32; k++ {
		p := uint32(1) << k
		diffs = append(diffs, p-1, p, p+1, 0-p, 0-p-1, 0-p+1)
	}
	for i := 0; i < 200; i++ {
		diffs = append(diffs, uint32(tp.intn(1<<31))*2+uint32(tp.intn(2)))
	}
	for i := 0; i < 400; i++ {
		a := uint32(tp.intn(1<<31))*2 + uint32(tp.intn(2))
		switch tp.intn(4) {
		case 0:
			a = 0 - uint32(tp.intn(70000))
		case 1:
			a = uint32(1)<<31 - 35000 + uint32(tp.intn(70000))
		}
		for _, d := range diffs {
			b := a + d
			r := ref(uint64(a), uint64(b), 32)
			lt, lte, gt, gte, eq := sna32LT(a, b), sna32LTE(a, b), sna32GT(a, b), sna32GTE(a, b), sna32EQ(a, b)
			if r != 2 && (lt != (r == -1) || gt != (r == 1) || eq != (r == 0) || lte != (r <= 0) || gte != (r >= 0)) {
				bad(32, uint64(a), uint64(b), fmt.Sprintf("LT=%v LTE=%v GT=%v GTE=%v EQ=%v, reference relation %d", lt, lte, gt, gte, eq, r))
				return
			}
			s := uint32(tp.intn(1<<31))*2 + 1
			if lt != sna32LT(a+s, b+s) || gt != sna32GT(a+s, b+s) || lte != sna32LTE(a+s, b+s) || gte != sna32GTE(a+s, b+s) {
				bad(32, uint64(a), uint64(b), fmt.Sprintf("the answer changes when both are shifted by %d", s))
				return
			}
		}
	}
	w.probe("serial-arithmetic-slice-checked")
	if w.extra == nil {
		w.extra = map[string]any{}
	}
	w.extra["c16.pairs16-checked"] = 1024 * 65536
	w.extra["c16.pairs32-checked"] = 400 * len(diffs)
}

func init() { registerScenario("D_serial_arithmetic", dSerialArithmetic) }

// dBitmapWrap: thousands of one-byte messages are in flight across TSN 2^32 while the first
// packet is lost, so the receiver tracks a gap-free run of more than 4096 TSNs above a hole
// that spans the wrap (default receive buffer: 132-word tracking bitmap).
func dBitmapWrap(w *world) {
	cfg := directedConfig(w, false)
	for i := range cfg.Side {
		cfg.Side[i].ForceTSN = true
		cfg.Side[i].InitialTSN = uint32(w.params[fmt.Sprintf("tsn%d", i)])
	}
	cfg.StepBudget = 6000000
	if rb := w.params["recvbuf"]; rb > 0 {
		cfg.Side[1].RecvBuf = uint32(rb)
	}
	w.canonEmit = true
	x, mon, ok := directedStart(w, cfg)
	if !ok {
		return
	}
	w.sim.noPerm = true
	w.params["phase_ms"] = 20000
	n := 4600
	if v := w.params["nmsgs"]; v > 0 {
		n = v
	}
	w.probe(fmt.Sprintf("deep-window-%dk", n/1000))
	sizes := make([]int, n)
	for i := range sizes {
		sizes[i] = 1
	}
	x.dirs = []*xferDir{{sid: 1, from: 0, unordered: true, sizes: sizes, preopen: true, setRecvParams: true}}
	drops := 1
	if v := w.params["drops"]; v > 0 {
		drops = v
	}
	dropDataOnce(w, 0, drops)
	runXfer(w, x, mon, false, false)
}

func init() {
	registerScenario("D_bitmap_wrap", dBitmapWrap)
	registerTwin("D_bitmap_wrap", bitmapWrapTwin(false))
	// C16w: the same history with seeded depth, wrap offset, receive-buffer size (bitmap length) and loss
	registerScenario("C16w", dBitmapWrap)
	registerTwin("C16w", bitmapWrapTwin(true))
}

func bitmapWrapTwin(seeded bool) twinDef {
	return twinDef{
		asymmetric: true,
		variants: func(seed uint64, params map[string]int) (map[string]int, map[string]int) {
			a, b := copyParams(params), copyParams(params)
			if _, ok := a["tsn0"]; !ok {
				a["tsn0"] = int(uint32(0xFFFFFFFF - 4200 + 1))
				if seeded {
					h := vsimNewTape("c16w", seed)
					rb := pick(h, 0, 0, 262144, 524288, 1500000, 2097152, 3000000)
					win := 8448
					if rb != 0 {
						win = (rb*4/500 + 63) / 64 * 64
						if win < 2048 {
							win = 2048
						}
					}
					a["recvbuf"], b["recvbuf"] = rb, rb
					n := 1000 + h.intn(win)
					a["nmsgs"], b["nmsgs"] = n, n
					a["tsn0"] = int(uint32(0 - uint32(1+h.intn(n))))
					d := 1 + h.intn(3)
					a["drops"], b["drops"] = d, d
				}
			}
			a["tsn1"], a["ssn"], a["mid"] = 0x30000000, 0, 0
			b["tsn0"], b["tsn1"], b["ssn"], b["mid"] = 0x10000000, 0x30000000, 0, 0
			return a, b
		},
		verdict: func(a map[string]int, ra, rb *runResult) (string, string, string) {
			return "C16", "behaviour-depends-on-sequence-values", fmt.Sprintf("initial TSN %d (2^32-%d) behaves differently from 0x10000000 with more than 4096 TSNs received above a hole", a["tsn0"], uint32(0-uint32(a["tsn0"])))
		},
	}
}
