//go:build race

package sctp

// Race-detector builds: the simulator's own synchronisation (token hand-over, harness mutexes)
// is hidden from the race detector, so that only the library's synchronisation orders the
// library's memory accesses. The seeded token scheduler still serialises execution; the detector
// reports two conflicting accesses whenever the library itself does not order them.

import (
	"runtime"
	"sync"
)

const vsimRaceBuild = true

func vsimRaceOff() { runtime.RaceDisable() }
func vsimRaceOn()  { runtime.RaceEnable() }

func vsimHLock(m *sync.Mutex) {
	runtime.RaceDisable()
	m.Lock()
	runtime.RaceEnable()
}

func vsimHUnlock(m *sync.Mutex) {
	runtime.RaceDisable()
	m.Unlock()
	runtime.RaceEnable()
}
