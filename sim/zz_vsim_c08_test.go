package sctp

// C08: graceful shutdown delivers everything first and completes on both sides.

import (
	"context"
	"fmt"
	"time"
)

func init() {
	registerScenario("C08", scenarioShutdown)
}

type shutdownCall struct {
	side      int
	invoked   bool
	returned  bool
	err       error
	invokeSeq int64
	returnSeq int64
	invokeAt  time.Duration
	returnAt  time.Duration
}

// afterTeardownQuiet: once both associations are closed nothing may happen any more.
func (w *world) censusOf(owner string) []string {
	var out []string
	for _, t := range w.sim.liveTasks() {
		if t.owner == owner && !t.client {
			out = append(out, t.name+"@"+t.site)
		}
	}
	return out
}

func scenarioShutdown(w *world) {
	cfg := genConfig(w, cfgOpts{wrapBias: true, maxLossPPM: 300000})
	shifted := seqShiftConfig(w, cfg) // C16s: the same scenario as one half of a shifted twin pair
	w.setup(cfg)
	if shifted {
		w.sim.noPerm = true
	}
	x := newXfer(w)
	mon := w.installMonitor(x)
	w.net.faultsOn = false
	if !w.connect(120*time.Second) || w.eps[0].connErr != nil || w.eps[1].connErr != nil {
		if w.viol == nil && w.aborted == "" {
			w.violate("C04", "no-faults-handshake", "fault-free handshake failed: %v / %v", w.eps[0].connErr, w.eps[1].connErr)
		}
		return
	}
	tp := w.wtape
	xo := xferOpts{maxStreams: 3, maxSID: 6, maxMsgs: 12, maxBytes: 200000, reliableOrderedOnly: tp.intn(3) != 0}
	if thorough() {
		xo.maxStreams, xo.maxMsgs, xo.maxBytes = 6, 80, 1500000
	}
	x.dirs = genDirs(w, xo)
	for _, d := range x.dirs {
		// only reliable streams here (the delivery clause is about accepted writes)
		d.relType, d.relVal = ReliabilityTypeReliable, 0
		d.dcep = nil
		rb := int(w.cfg.Side[1-d.from].RecvBuf)
		if rb == 0 {
			rb = 1024 * 1024
		}
		lim := rb / 2 / (len(x.dirs) + 1)
		for i := range d.sizes {
			if d.sizes[i] > lim {
				d.sizes[i] = 1 + lim/2
			}
		}
		d.readPause, d.pauseFor = 0, 0
	}
	st := map[*xferDir]*dirState{}
	x.onRead = func(d *xferDir, r *readRec) { checkRead(w, st, d, r) }
	w.net.faultsOn = true
	x.pokes = w.wtape.intn(2) == 0
	x.start()

	// systematic leg: {initiating side} x {one-sided, crossed at once, crossed 5 ms later} x every placement of at most k
	// faults on the first n packets of each direction after Shutdown was invoked (the cell follows from seed - sweep_base)
	sweep := w.params["c08_sweep"] != 0
	sweepCfg := 0
	when := tp.intn(3)
	if sweep {
		n, k := w.params["sweep_n"], w.params["sweep_k"]
		space := sweepPlacementCount(n, k) * 6
		idx := int(w.seed-uint64(w.params["sweep_base"])) % space
		if w.extra == nil {
			w.extra = map[string]any{}
		}
		w.extra["sweep_index"], w.extra["sweep_space"] = idx, space
		sweepCfg = idx % 6
		sweepPlacement(w, idx/6, n, k)
		w.net.faultsOn = false
		when = 2
	}
	// when to shut down: immediately, mid-transfer, or after the writers are done
	switch when {
	case 0:
	case 1:
		w.sleep(time.Duration(tp.intn(2000)) * time.Millisecond)
	case 2:
		w.run(func() bool { return x.writersDone() }, w.now()+10*time.Second)
	}
	if w.stopped() {
		return
	}
	first := tp.intn(2)
	crossed := tp.intn(3) == 0
	offset := time.Duration(0)
	if crossed {
		offset = time.Duration(pick(tp, 0, 0, 1, 5, 50, 300, 1500)) * time.Millisecond
	}
	if sweep {
		first = sweepCfg % 2
		crossed = sweepCfg/2 > 0
		offset = time.Duration((sweepCfg/2-1)*5) * time.Millisecond
		if !crossed {
			offset = 0
		}
		w.net.mark() // fault positions count from the packets emitted after this point
	}
	calls := []*shutdownCall{{side: first}}
	if crossed {
		calls = append(calls, &shutdownCall{side: 1 - first})
	}
	for i, c := range calls {
		c := c
		delay := time.Duration(0)
		if i == 1 {
			delay = offset
		}
		ep := w.eps[c.side]
		w.sim.spawnClient("shutdown."+ep.name, ep.name, func() {
			if delay > 0 {
				h := vsimBlocking("client.sleep")
				time.Sleep(delay)
				vsimWoke(h)
			}
			c.invoked = true
			c.invokeSeq = w.nextSeq()
			c.invokeAt = w.now()
			w.apiEvent(ep, "shutdown-invoke", "")
			c.err = ep.assoc.Shutdown(context.Background())
			c.returnSeq = w.nextSeq()
			c.returnAt = w.now()
			c.returned = true
			w.apiEvent(ep, "shutdown-return", fmt.Sprintf("err=%v", c.err))
		})
	}
	// late writers: keep trying to write after the shutdown began
	var late []*msgRec
	for _, d := range x.dirs {
		d := d
		w.sim.spawnClient(fmt.Sprintf("latewriter.%s.%d", w.eps[d.from].name, d.sid), w.eps[d.from].name, func() {
			for !d.writerDone {
				h := vsimBlocking("client.sleep")
				time.Sleep(20 * time.Millisecond)
				vsimWoke(h)
			}
			for k := 0; k < 4; k++ {
				h := vsimBlocking("client.sleep")
				time.Sleep(time.Duration(10+tp.intn(400)) * time.Millisecond)
				vsimWoke(h)
				if d.tx == nil || w.tornDown {
					return
				}
				m := w.newMsg(d.tx, 1+tp.intn(200), false)
				m.unordered, m.relType, m.relVal = d.curUnordered, d.relType, d.relVal
				x.index[m.ppi] = m
				m.stateAtInvoke = accState(w.eps[d.from].assoc)
				d.msgs = append(d.msgs, m)
				late = append(late, m)
				w.write(d.tx, m)
			}
		})
	}

	// fault phase, then heal and bounded completion
	phase := time.Duration(1+tp.intn(20)) * time.Second
	allReturned := func() bool {
		for _, c := range calls {
			if !c.returned {
				return false
			}
		}
		return accState(w.eps[0].assoc) == closed && accState(w.eps[1].assoc) == closed
	}
	if tp.intn(3) == 0 && !sweep {
		// a long outage in the middle of the shutdown sequence: T2 backs off, and must keep trying
		w.run(allReturned, w.now()+time.Duration(tp.intn(3000))*time.Millisecond)
		if w.stopped() {
			return
		}
		if !allReturned() {
			w.net.partitioned = [2]bool{true, true}
			w.probe("partition-during-shutdown")
			w.sleep(time.Duration(5+tp.intn(400)) * time.Second)
			if w.stopped() {
				return
			}
		}
	} else {
		w.run(allReturned, w.now()+phase)
		if w.stopped() {
			return
		}
	}
	w.net.heal()
	healAt := w.now()
	rmax := rtoMaxOf(w.cfg.Side[0])
	if r := rtoMaxOf(w.cfg.Side[1]); r > rmax {
		rmax = r
	}
	total := 0
	for _, d := range x.dirs {
		for _, n := range d.sizes {
			total += n
		}
	}
	lat := time.Duration(w.cfg.Fault[0].LatencyUs+w.cfg.Fault[0].JitterUs) * time.Microsecond
	minMTU := 1191
	for _, s := range w.cfg.Side {
		if s.MTU != 0 && int(s.MTU) < minMTU {
			minMTU = int(s.MTU)
		}
	}
	slow := time.Duration(0)
	for _, d := range x.dirs {
		slow += time.Duration(len(d.sizes)) * d.readDelay
	}
	bound := 8*rmax + time.Duration(total/(minMTU-32)+1)*(2*lat+200*time.Millisecond)*2 + slow + offset
	// the shutdown calls must return, and the initiator must be closed by itself
	callsReturned := func() bool {
		for _, c := range calls {
			if !c.returned {
				return false
			}
		}
		return true
	}
	oneClosed := func() bool {
		for _, c := range calls {
			if c.returned && accState(w.eps[c.side].assoc) == closed {
				return true
			}
		}
		return false
	}
	r := w.run(oneClosed, healAt+bound)
	if w.stopped() {
		return
	}
	if r == stopCond && !callsReturned() {
		// crossed shutdown: the endpoint that is still waiting (its SHUTDOWN-COMPLETE may be lost, and the
		// peer no longer exists) must finish at the latest when its transport is closed
		r = w.run(callsReturned, w.now()+3*rmax)
		if w.stopped() {
			return
		}
		if r != stopCond {
			for _, c := range calls {
				if !c.returned {
					w.probe("crossed-peer-transport-closed-by-harness")
					_ = w.eps[c.side].conn.Close()
				}
			}
			r = w.run(callsReturned, w.now()+2*time.Second)
			if w.stopped() {
				return
			}
		}
	}
	if r != stopCond {
		desc := ""
		for _, ep := range w.eps {
			isz, ib := accInflight(ep.assoc)
			psz, pb := accPending(ep.assoc)
			desc += fmt.Sprintf("%s: state=%s inflight=%d/%dB pending=%d/%dB %s; ", ep.name, accStateName(ep.assoc), isz, ib, psz, pb, accTimers(ep.assoc))
		}
		w.violate("C08", "shutdown-not-completed", "Shutdown did not return %v after the network healed (crossed=%v): %s", bound, crossed, desc)
		return
	}
	for _, c := range calls {
		if c.err != nil {
			// a crossed shutdown may find the association already shutting down; that is an error return, not nil
			if crossed {
				w.probe("crossed-shutdown-second-call-error")
				continue
			}
			w.violate("C08", "shutdown-error", "%s: Shutdown returned %v", w.eps[c.side].name, c.err)
			return
		}
	}
	// the peer ends closed by itself or at the latest when its transport is closed
	r = w.run(func() bool { return accState(w.eps[0].assoc) == closed && accState(w.eps[1].assoc) == closed }, w.now()+3*rmax)
	if w.stopped() {
		return
	}
	if r != stopCond {
		for _, ep := range w.eps {
			if accState(ep.assoc) != closed {
				w.probe("peer-transport-closed-by-harness")
				_ = ep.conn.Close()
			}
		}
		r = w.run(func() bool { return accState(w.eps[0].assoc) == closed && accState(w.eps[1].assoc) == closed }, w.now()+2*time.Second)
		if w.stopped() {
			return
		}
		if r != stopCond {
			w.violate("C08", "peer-not-closed", "an endpoint is not closed 2 s after its transport was closed: A=%s B=%s", accStateName(w.eps[0].assoc), accStateName(w.eps[1].assoc))
			return
		}
	}
	// let readers drain what is readable and observe the closure (an application that is scheduled late may not
	// even have accepted its streams yet: what it can still read after the association closed counts as delivered)
	w.run(func() bool {
		for _, ep := range w.eps {
			if !ep.acceptEOF {
				return false
			}
			for _, s := range ep.streams {
				if !s.readerDone {
					return false
				}
			}
		}
		return true
	}, w.now()+slow+10*time.Second)
	if w.stopped() {
		return
	}
	// ---- delivery oracle
	for _, c := range calls {
		if c.err != nil {
			continue
		}
		for _, d := range x.dirs {
			if d.from != c.side {
				continue
			}
			for _, m := range d.msgs {
				if !m.done {
					continue
				}
				if m.err == nil && m.returnSeq < c.invokeSeq && m.delivered != 1 {
					w.violate("C08", "accepted-before-shutdown-not-delivered", "%s: Shutdown returned nil but message %d (stream %d, %d bytes), accepted before the call, was delivered %d times at the peer", w.eps[c.side].name, m.id, d.sid, m.size, m.delivered)
					return
				}
				if m.err == nil && m.delivered != 1 {
					w.violate("C08", "accepted-write-half-lost", "%s: message %d (stream %d) was accepted (n=%d, err=nil) around the Shutdown call but delivered %d times", w.eps[c.side].name, m.id, d.sid, m.n, m.delivered)
					return
				}
			}
		}
	}
	for _, m := range late {
		if !m.done {
			continue
		}
		if m.stateAtInvoke != established && m.err == nil {
			w.violate("C08", "write-accepted-after-shutdown", "%s: WriteSCTP invoked in state %s returned n=%d err=nil", w.eps[m.from].name, getAssociationStateString(m.stateAtInvoke), m.n)
			return
		}
		if m.err != nil && (m.delivered != 0 || m.n != 0) {
			w.violate("C08", "rejected-write-had-effect", "%s: a rejected write (err=%v, n=%d) was delivered %d times", w.eps[m.from].name, m.err, m.n, m.delivered)
			return
		}
		if m.err != nil {
			for _, ti := range mon.s[m.from].sent {
				if ti.msg == m {
					w.violate("C08", "rejected-write-sent", "%s: data of a rejected write appeared on the wire (TSN %d)", w.eps[m.from].name, ti.tsn)
					return
				}
			}
		}
	}
	// ---- both ended: no association-owned task is left, nothing happens any more
	w.quiesce(time.Second)
	if w.stopped() {
		return
	}
	for _, ep := range w.eps {
		if left := w.censusOf(ep.name); len(left) > 0 {
			w.violate("C09", "tasks-left-after-shutdown", "%s is closed but tasks are still alive: %v", ep.name, left)
			return
		}
	}
	pk := len(w.allPkts)
	steps := w.sim.nLibSteps
	w.sleep(10 * time.Minute)
	if len(w.allPkts) != pk {
		w.violate("C09", "emission-after-close", "%d packets were written after both associations were closed", len(w.allPkts)-pk)
	} else if w.sim.nLibSteps != steps {
		w.violate("C09", "activity-after-close", "%d scheduling steps of library tasks happened during 10 idle minutes after both associations were closed (last: %s)", w.sim.nLibSteps-steps, w.sim.lastLib)
	}
	w.probe("shutdown-completed")
	if crossed {
		w.probe("crossed-shutdown-completed")
	}
}
