package sctp

// Simulated transport: simConn implements net.Conn over a seeded, faulty,
// discrete-event network owned by the driver.

import (
	"container/heap"
	"errors"
	"fmt"
	"net"
	"os"
	"sync"
	"time"
)

type simAddr struct{}

func (simAddr) Network() string { return "sim" }
func (simAddr) String() string  { return "sim" }

var errSimClosed = errors.New("simconn: closed")
var errSimInjected = errors.New("simconn: injected transport error")

type rxItem struct {
	data []byte
	pkt  *wirePacket
}

type simConn struct {
	w    *world
	side int // 0 = A, 1 = B (index into world.eps); 2+ = detached
	name string

	mu         sync.Mutex
	rx         []rxItem
	lastPkt    *wirePacket
	notify     chan struct{}
	closed     bool
	rdExpired  bool
	readErr    error // injected
	writeErr   error // injected
	nWriteAfterClose int
	nWrites    int
	nReads     int
	closedAtStep int
	wrDeadline time.Time
	firstWriteErrSeq int64
	firstWriteErrAt  time.Duration
}

func newSimConn(w *world, side int, name string) *simConn {
	return &simConn{w: w, side: side, name: name, notify: make(chan struct{}, 1)}
}

func (c *simConn) poke() {
	vsimRaceOff()
	select {
	case c.notify <- struct{}{}:
	default:
	}
	vsimRaceOn()
}

func (c *simConn) Read(b []byte) (int, error) {
	c.w.onReadCall(c)
	for {
		vsimHLock(&c.mu)
		if c.readErr != nil {
			err := c.readErr
			vsimHUnlock(&c.mu)
			return 0, err
		}
		if c.closed {
			vsimHUnlock(&c.mu)
			return 0, errSimClosed
		}
		if c.rdExpired {
			vsimHUnlock(&c.mu)
			return 0, os.ErrDeadlineExceeded
		}
		if len(c.rx) > 0 {
			it := c.rx[0]
			c.rx = c.rx[1:]
			c.nReads++
			c.lastPkt = it.pkt
			vsimHUnlock(&c.mu)
			n := copy(b, it.data)
			c.w.onDelivered(c, it.data)
			return n, nil
		}
		vsimHUnlock(&c.mu)
		h := vsimBlocking("conn.Read:" + c.name)
		vsimRaceOff()
		<-c.notify
		vsimRaceOn()
		vsimWoke(h)
	}
}

func (c *simConn) Write(b []byte) (int, error) {
	vsimHLock(&c.mu)
	if c.closed {
		c.nWriteAfterClose++
		vsimHUnlock(&c.mu)
		c.w.onWriteAfterClose(c)
		return 0, errSimClosed
	}
	if c.writeErr != nil {
		err := c.writeErr
		if c.firstWriteErrSeq == 0 {
			c.firstWriteErrSeq = c.w.nextSeq()
			c.firstWriteErrAt = c.w.now()
		}
		vsimHUnlock(&c.mu)
		return 0, err
	}
	c.nWrites++
	vsimHUnlock(&c.mu)
	p := make([]byte, len(b))
	copy(p, b)
	c.w.onSend(c, p)
	return len(b), nil
}

func (c *simConn) Close() error {
	vsimHLock(&c.mu)
	already := c.closed
	c.closed = true
	vsimHUnlock(&c.mu)
	if !already {
		c.w.onConnClose(c)
	}
	c.poke()
	return nil
}

func (c *simConn) LocalAddr() net.Addr  { return simAddr{} }
func (c *simConn) RemoteAddr() net.Addr { return simAddr{} }
func (c *simConn) SetDeadline(t time.Time) error {
	_ = c.SetReadDeadline(t)
	return c.SetWriteDeadline(t)
}

func (c *simConn) SetReadDeadline(t time.Time) error {
	vsimHLock(&c.mu)
	if t.IsZero() {
		c.rdExpired = false
		vsimHUnlock(&c.mu)
		return nil
	}
	if !t.After(time.Now()) {
		c.rdExpired = true
		vsimHUnlock(&c.mu)
		c.poke()
		return nil
	}
	vsimHUnlock(&c.mu)
	// future deadlines are not used by pion/sctp; implement with a plain timer
	time.AfterFunc(time.Until(t), func() {
		vsimHLock(&c.mu)
		c.rdExpired = true
		vsimHUnlock(&c.mu)
		c.poke()
	})
	return nil
}

func (c *simConn) SetWriteDeadline(t time.Time) error {
	vsimHLock(&c.mu)
	c.wrDeadline = t
	vsimHUnlock(&c.mu)
	return nil
}

// injectReadError makes the next and all later Reads fail (transport failure).
func (c *simConn) injectReadError(err error) {
	vsimHLock(&c.mu)
	c.readErr = err
	vsimHUnlock(&c.mu)
	c.poke()
}

func (c *simConn) injectWriteError(err error) {
	vsimHLock(&c.mu)
	c.writeErr = err
	vsimHUnlock(&c.mu)
}

// deliverPkt appends a packet to the receive queue (driver only).
func (c *simConn) deliverPkt(p []byte, pkt *wirePacket) {
	vsimHLock(&c.mu)
	if c.closed {
		vsimHUnlock(&c.mu)
		return
	}
	c.rx = append(c.rx, rxItem{p, pkt})
	vsimHUnlock(&c.mu)
	c.poke()
}

// ---------------------------------------------------------------- network

type faultCfg struct {
	dropPPM    uint32
	dupPPM     uint32
	reorderPPM uint32        // extra delay ("hold") probability
	holdMax    time.Duration // maximum extra delay for a held packet
	corruptPPM uint32
	zeroCRCPPM uint32
	alignPPM   uint32 // delay a packet (by at most 3 s) so that it arrives exactly when a timer of the system expires
	latency    time.Duration
	jitter     time.Duration // uniform extra in [0,jitter], quantised to 100us
}

type netStats struct {
	Sent, Delivered, Dropped, Duplicated, Held, Corrupted, ZeroCRC, PlanFaults, PartitionDrops, Aligned int
}

type netEvent struct {
	at   time.Duration
	seq  int64
	to   *simConn
	data []byte
	pkt  *wirePacket
}

type netHeap []*netEvent

func (h netHeap) Len() int { return len(h) }
func (h netHeap) Less(i, j int) bool {
	if h[i].at != h[j].at {
		return h[i].at < h[j].at
	}
	return h[i].seq < h[j].seq
}
func (h netHeap) Swap(i, j int) { h[i], h[j] = h[j], h[i] }
func (h *netHeap) Push(x any)   { *h = append(*h, x.(*netEvent)) }
func (h *netHeap) Pop() any {
	o := *h
	n := len(o)
	x := o[n-1]
	*h = o[:n-1]
	return x
}

// planned fault for one packet (index within its direction)
type planAction int

const (
	planNone planAction = iota
	planDrop
	planDup
	planDelay // delay by planDelayBy
	planSwap  // deliver after the next packet of the same direction
	planCorrupt
	planZeroCRC
	planDupLate // deliver normally and a second copy planDelayBy later
	planZeroRef // reference of a zero-checksum twin: intact if the receiver must accept a zero checksum on this packet, lost otherwise
)

type simNet struct {
	w     *world
	mu    sync.Mutex
	q     netHeap
	seq   int64
	cfg   [2]faultCfg
	tape  [2]*vsimTape
	stats [2]netStats
	plan  [2]map[int]planAction
	planDelayBy time.Duration
	partitioned [2]bool // drop everything in this direction
	filter func(dir int, idx int, p *wirePacket) planAction // targeted faults; nil = none
	swapHeld [2]*netEvent
	faultsOn bool
	marked     bool
	markIdx    [2]int
	faultLimit int // random faults only hit the first faultLimit packets of a direction after the mark (0 = no limit)
}

// mark: packet indexes of planned (parameter) faults and of faultLimit count from here.
func (n *simNet) mark() {
	vsimHLock(&n.mu)
	n.marked = true
	n.markIdx = [2]int{len(n.w.pkts[0]), len(n.w.pkts[1])}
	vsimHUnlock(&n.mu)
}

// paramPlan: fault placements passed as scenario parameters p<j>d / p<j>i / p<j>a
// (direction, packet index after the mark, action) - used by the k-fault sweeps.
func (n *simNet) paramPlan(dir, rel int) planAction {
	if !n.marked || n.w.params == nil {
		return planNone
	}
	for j := 0; j < 3; j++ {
		a, ok := n.w.params[fmt.Sprintf("p%da", j)]
		if !ok || a == 0 {
			continue
		}
		if n.w.params[fmt.Sprintf("p%dd", j)] == dir && n.w.params[fmt.Sprintf("p%di", j)] == rel {
			switch a {
			case 1:
				return planDrop
			case 2:
				return planDup
			case 3:
				return planDelay
			case 4:
				return planSwap
			case 5:
				return planCorrupt
			case 6:
				return planZeroCRC
			case 7:
				return planZeroRef
			}
		}
	}
	return planNone
}

// inject schedules raw bytes for delivery to a connection (adversary, stale packet replay).
func (n *simNet) inject(at time.Duration, to *simConn, raw []byte) {
	vsimHLock(&n.mu)
	d := make([]byte, len(raw))
	copy(d, raw)
	n.push(at, to, d, nil)
	vsimHUnlock(&n.mu)
}

func newSimNet(w *world, seed uint64) *simNet {
	n := &simNet{w: w, faultsOn: true}
	n.tape[0] = vsimNewTape("net.AB", seed)
	n.tape[1] = vsimNewTape("net.BA", seed)
	n.plan[0] = map[int]planAction{}
	n.plan[1] = map[int]planAction{}
	return n
}

func (n *simNet) push(at time.Duration, to *simConn, data []byte, pkt *wirePacket) {
	n.seq++
	heap.Push(&n.q, &netEvent{at: at, seq: n.seq, to: to, data: data, pkt: pkt})
}

// send is called (by the token holder) for every packet written to a simConn.
func (n *simNet) send(dir int, to *simConn, pkt *wirePacket) {
	vsimHLock(&n.mu)
	defer vsimHUnlock(&n.mu)
	st := &n.stats[dir]
	st.Sent++
	now := n.w.now()
	cfg := n.cfg[dir]
	tp := n.tape[dir]
	data := pkt.raw

	delay := cfg.latency
	if cfg.jitter > 0 {
		q := int(cfg.jitter / (100 * time.Microsecond))
		delay += time.Duration(tp.intn(q+1)) * 100 * time.Microsecond
	}
	act := planNone
	rel := pkt.idx - n.markIdx[dir]
	if a, ok := n.plan[dir][pkt.idx]; ok {
		act = a
	} else if pa := n.paramPlan(dir, rel); pa != planNone {
		act = pa
		if n.planDelayBy == 0 {
			n.planDelayBy = 1500 * time.Millisecond
		}
	} else if n.filter != nil {
		act = n.filter(dir, pkt.idx, pkt)
	}
	if act == planZeroRef {
		first := uint8(255)
		if len(pkt.chunks) > 0 {
			first = pkt.chunks[0].typ
		}
		// RFC 9653: accepted only if this endpoint declared acceptance, never for INIT / COOKIE-ECHO packets
		if n.w.cfg.Side[1-dir].ZeroCRC && first != wtINIT && first != wtCOOKIEECHO {
			act = planNone
			n.w.probe("zero-crc-ref-intact")
		} else {
			act = planDrop
			n.w.probe("zero-crc-ref-lost")
		}
		st.PlanFaults++
	} else if act != planNone {
		st.PlanFaults++
	}
	if n.partitioned[dir] {
		st.PartitionDrops++
		pkt.fate = "partition-drop"
		return
	}
	if n.faultsOn && act == planNone && (n.faultLimit == 0 || (n.marked && rel < n.faultLimit)) {
		if tp.chance(cfg.dropPPM) {
			act = planDrop
		} else if tp.chance(cfg.dupPPM) {
			act = planDup
		} else if tp.chance(cfg.reorderPPM) {
			act = planDelay
			hm := cfg.holdMax
			if hm <= 0 {
				hm = 50 * time.Millisecond
			}
			q := int(hm / time.Millisecond)
			delay += time.Duration(1+tp.intn(q)) * time.Millisecond
			st.Held++
			pkt.fate = "held"
			act = planNone
		} else if tp.chance(cfg.corruptPPM) {
			act = planCorrupt
		} else if tp.chance(cfg.zeroCRCPPM) {
			act = planZeroCRC
		}
	}
	switch act {
	case planDrop:
		st.Dropped++
		pkt.fate = "drop"
		return
	case planDup:
		st.Duplicated++
		pkt.fate = "dup"
		n.push(now+delay, to, data, pkt)
		extra := time.Duration(1+tp.intn(20)) * time.Millisecond
		n.push(now+delay+extra, to, data, pkt)
		return
	case planDupLate:
		st.Duplicated++
		pkt.fate = "dup-late"
		n.push(now+delay, to, data, pkt)
		n.push(now+delay+n.planDelayBy, to, data, pkt)
		return
	case planDelay:
		st.Held++
		pkt.fate = "delay"
		n.push(now+delay+n.planDelayBy, to, data, pkt)
		return
	case planSwap:
		st.Held++
		pkt.fate = "swap"
		if n.swapHeld[dir] != nil {
			// already holding one: release it first
			h := n.swapHeld[dir]
			n.push(now+delay, h.to, h.data, h.pkt)
		}
		n.swapHeld[dir] = &netEvent{to: to, data: data, pkt: pkt}
		return
	case planCorrupt:
		st.Corrupted++
		pkt.fate = "corrupt"
		d := make([]byte, len(data))
		copy(d, data)
		if len(d) > 0 {
			// (bit positions come from the adversary tape so that the network tapes of a twin run stay aligned)
			at := n.w.atape
			nflips := 1 + at.intn(4)
			for i := 0; i < nflips; i++ {
				bit := at.intn(len(d) * 8)
				d[bit/8] ^= 1 << (bit % 8)
			}
			if len(d) >= 12 && d[8] == 0 && d[9] == 0 && d[10] == 0 && d[11] == 0 {
				d[8] = 1 // keep the checksum field non-zero: a zero checksum is a different case
			}
			same := true
			for i := range d {
				if d[i] != data[i] {
					same = false
				}
			}
			if same {
				d[len(d)-1] ^= 1 // two flips cancelled each other
			}
			n.w.logf("CORRUPT %d flips: %x -> %x", nflips, data, d)
		}
		pkt.mutated = d
		n.push(now+delay, to, d, pkt)
		return
	case planZeroCRC:
		st.ZeroCRC++
		pkt.fate = "zerocrc"
		d := make([]byte, len(data))
		copy(d, data)
		if len(d) >= 12 {
			d[8], d[9], d[10], d[11] = 0, 0, 0, 0
		}
		pkt.mutated = d
		n.push(now+delay, to, d, pkt)
		return
	}
	if n.faultsOn && act == planNone && cfg.alignPPM > 0 && (n.faultLimit == 0 || (n.marked && rel < n.faultLimit)) && tp.chance(cfg.alignPPM) {
		base := n.w.t0.Add(now + delay)
		if due, ok := n.w.sim.nextTimerDue(base, base.Add(3*time.Second)); ok {
			delay = due.Sub(n.w.t0) - now
			st.Aligned++
			pkt.fate = "aligned-with-timer"
		}
	}
	n.push(now+delay, to, data, pkt)
	if h := n.swapHeld[dir]; h != nil {
		n.swapHeld[dir] = nil
		n.push(now+delay+time.Microsecond, h.to, h.data, h.pkt)
	}
}

// flushSwap releases a packet held for a swap whose successor never came.
func (n *simNet) flushSwap() {
	vsimHLock(&n.mu)
	defer vsimHUnlock(&n.mu)
	for dir := 0; dir < 2; dir++ {
		if h := n.swapHeld[dir]; h != nil {
			n.swapHeld[dir] = nil
			n.push(n.w.now()+n.cfg[dir].latency, h.to, h.data, h.pkt)
		}
	}
}

func (n *simNet) nextTime() (time.Duration, bool) {
	vsimHLock(&n.mu)
	defer vsimHUnlock(&n.mu)
	if len(n.q) == 0 {
		return 0, false
	}
	return n.q[0].at, true
}

func (n *simNet) popDue(now time.Duration) *netEvent {
	vsimHLock(&n.mu)
	defer vsimHUnlock(&n.mu)
	if len(n.q) == 0 || n.q[0].at > now {
		return nil
	}
	return heap.Pop(&n.q).(*netEvent)
}

func (n *simNet) inFlight() int {
	vsimHLock(&n.mu)
	defer vsimHUnlock(&n.mu)
	c := len(n.q)
	for dir := 0; dir < 2; dir++ {
		if n.swapHeld[dir] != nil {
			c++
		}
	}
	return c
}

// heal switches every fault off (already scheduled deliveries still happen).
func (n *simNet) heal() {
	vsimHLock(&n.mu)
	n.faultsOn = false
	n.partitioned = [2]bool{}
	n.plan[0] = map[int]planAction{}
	n.plan[1] = map[int]planAction{}
	n.filter = nil
	vsimHUnlock(&n.mu)
	n.flushSwap()
}
