package sctp

// Wire-side oracles of C06 (retransmission stops when the policy is exhausted;
// DCEP is reliable and ordered) and C07 (FORWARD-TSN skips exactly the
// abandoned messages).

import (
	"time"
)

// checkPolicyImpl is called after every emission of a DATA chunk.
func (m *wireMon) checkPolicyImpl(X int, ti *tsnInfo) {
	if !m.props["C06"] {
		return
	}
	w := m.w
	msg := ti.msg
	if msg == nil {
		m.count("c06.unattributed-chunk")
		return
	}
	m.count("c06.emissions-checked")
	if msg.dcep {
		if ti.u {
			w.violate("C06", "dcep-unordered", "%s emitted DCEP message %d (TSN %d) with the unordered flag", m.name(X), msg.id, ti.tsn)
		}
		return
	}
	switch msg.relType {
	case ReliabilityTypeRexmit:
		if len(ti.times) > int(msg.relVal)+1 {
			class := "rexmit-limit-exceeded"
			if !m.lastFragmentEmitted(X, msg) {
				// the message was only partly in flight when this retransmission happened
				class = "rexmit-limit-exceeded-partly-inflight"
			} else if m.s[X].inboundReset[ti.sid] {
				// the peer had reset its direction of this stream id before
				class = "rexmit-limit-exceeded-after-peer-reset"
			}
			w.violate("C06", class, "%s put TSN %d (message %d, stream %d, %d bytes, B=%v E=%v) on the wire %d times; the stream's retransmission limit is %d (at most %d transmissions); times=%v",
				m.name(X), ti.tsn, msg.id, ti.sid, ti.n, ti.b, ti.e, len(ti.times), msg.relVal, msg.relVal+1, ti.times)
		}
		if len(ti.times) == int(msg.relVal)+1 && len(ti.times) > 1 {
			w.probe("rexmit-limit-reached")
		}
	case ReliabilityTypeTimed:
		late := 0
		life := time.Duration(msg.relVal) * time.Millisecond
		for _, t := range ti.times[1:] {
			if t > ti.times[0]+life {
				late++
			}
		}
		if late > 1 {
			class := "lifetime-exceeded"
			if !m.lastFragmentEmitted(X, msg) {
				class = "lifetime-exceeded-partly-inflight"
			} else if m.s[X].inboundReset[ti.sid] {
				class = "lifetime-exceeded-after-peer-reset"
			}
			w.violate("C06", class, "%s transmitted TSN %d (message %d, stream %d) %d times later than its lifetime of %v after the first transmission at %v; times=%v",
				m.name(X), ti.tsn, msg.id, ti.sid, late, life, ti.times[0], ti.times)
		}
		if late == 1 {
			w.probe("lifetime-expired-one-more-transmission")
		}
	}
}

// lastFragmentEmitted: was the whole message on the wire when the chunk was transmitted the
// time before (i.e. when the loss signal that caused this retransmission can have been
// raised)? The library abandons a message only once all its fragments are in flight.
func (m *wireMon) lastFragmentEmitted(X int, msg *msgRec) bool {
	var first time.Duration = -1
	for _, ti := range m.s[X].sent {
		if ti.msg == msg && ti.e {
			first = ti.times[0]
		}
	}
	if first < 0 {
		return false
	}
	// the chunk under judgement is the one whose times were just extended
	for _, ti := range m.s[X].sent {
		if ti.msg == msg && len(ti.times) >= 2 && ti.times[len(ti.times)-1] == m.w.now() {
			if first > ti.times[len(ti.times)-2] {
				return false
			}
		}
	}
	return true
}

// messageSkipped: every TSN the sender emitted for the message is covered by an emitted FORWARD-TSN.
func (m *wireMon) messageSkipped(X int, msg *msgRec) bool {
	// A message counts as skipped as soon as one of its chunks lies at or below the new
	// cumulative TSN of an emitted FORWARD-TSN: with interleaving the fragments of a
	// message are not contiguous, and the later ones may still be acknowledged normally.
	sm := m.s[X]
	for _, ti := range sm.sent {
		if ti.msg == msg && (ti.fwd || (sm.haveFwdCum && wSNA32LTE(ti.tsn, sm.lastFwdCum))) {
			return true
		}
	}
	return false
}

// checkForwardTSNImpl is called for every emitted FORWARD-TSN / I-FORWARD-TSN.
func (m *wireMon) checkForwardTSNImpl(X int, p *wirePacket, c *wChunk) {
	w := m.w
	sm := m.s[X]
	peer := m.s[1-X]
	w.probe("forward-tsn-emitted")
	// C17: kind as negotiated
	wantI := sm.extIData && peer.extIData
	if (c.typ == wtIFORWARDTSN) != wantI {
		w.violate("C17", "wrong-forward-kind", "%s emitted %s but interleaving negotiated=%v", m.name(X), wtName(c.typ), wantI)
	}
	if !m.props["C07"] {
		return
	}
	newCum := c.newCumTSN
	if !sm.haveFwdCum || wSNA32GT(newCum, sm.lastFwdCum) {
		sm.lastFwdCum, sm.haveFwdCum = newCum, true
	}
	if !sm.haveHigh || wSNA32GT(newCum, sm.highest) {
		w.violate("C07", "forward-beyond-sent", "%s emitted %s with new cumulative TSN %d beyond the highest TSN it ever sent (%d)", m.name(X), wtName(c.typ), newCum, sm.highest)
		return
	}
	// the sender's acknowledgement point as far as the wire shows: committed, or with the packet in progress applied
	lo := sm.initialTSN - 1
	if sm.ack.valid {
		lo = sm.ack.cum
	}
	hiBase := lo
	for _, pc := range sm.pendingAck {
		if wSNA32GT(pc.cumTSN, hiBase) {
			hiBase = pc.cumTSN
		}
	}
	pendingAcked := func(ti *tsnInfo) bool {
		if ti.acked {
			return true
		}
		for _, pc := range sm.pendingAck {
			if wSNA32LTE(ti.tsn, pc.cumTSN) {
				return true
			}
			for _, g := range pc.gaps {
				if wSNA32GTE(ti.tsn, pc.cumTSN+uint32(g.start)) && wSNA32LTE(ti.tsn, pc.cumTSN+uint32(g.end)) {
					return true
				}
			}
		}
		return false
	}
	type key struct {
		sid uint16
		u   bool
	}
	mustList := map[key]uint32{} // largest skipped SSN/MID among unacked covered ordered messages (strict range)
	mayList := map[key]map[uint32]bool{}
	if newCum-lo > 1<<20 {
		w.violate("C07", "forward-beyond-sent", "%s emitted %s with new cumulative TSN %d, %d beyond its acknowledgement point", m.name(X), wtName(c.typ), newCum, newCum-lo)
		return
	}
	for t := lo + 1; wSNA32LTE(t, newCum); t++ {
		ti := sm.sent[t]
		if ti == nil {
			continue
		}
		ti.fwd = true
		seq := uint32(ti.ssn)
		if ti.idata {
			seq = ti.mid
		}
		k := key{ti.sid, ti.u}
		if mayList[k] == nil {
			mayList[k] = map[uint32]bool{}
		}
		mayList[k][seq] = true
		if pendingAcked(ti) {
			continue
		}
		// an unacknowledged chunk is being skipped: it must belong to an abandoned (partially reliable, non-DCEP) message
		if ti.msg != nil && (ti.msg.relType == ReliabilityTypeReliable || ti.msg.dcep) {
			w.violate("C07", "forward-covers-reliable", "%s emitted %s newcum=%d covering unacknowledged TSN %d of message %d (stream %d, reliable=%v dcep=%v) which must never be abandoned",
				m.name(X), wtName(c.typ), newCum, t, ti.msg.id, ti.sid, ti.msg.relType == ReliabilityTypeReliable, ti.msg.dcep)
			return
		}
		if wSNA32GT(t, hiBase) && (!ti.u || ti.idata) {
			cur, ok := mustList[k]
			if !ok || seqGT(seq, cur, ti.idata) {
				mustList[k] = seq
			}
		}
	}
	listed := map[key]uint32{}
	for _, fs := range c.fwdStreams {
		k := key{fs.sid, fs.unordered}
		seq := uint32(fs.ssn)
		if c.typ == wtIFORWARDTSN {
			seq = fs.mid
		}
		if _, dup := listed[k]; dup {
			w.violate("C07", "forward-stream-listed-twice", "%s emitted %s listing stream %d (U=%v) twice: %v", m.name(X), wtName(c.typ), fs.sid, fs.unordered, c.fwdStreams)
			return
		}
		listed[k] = seq
		if mayList[k] == nil {
			w.violate("C07", "forward-lists-unskipped-stream", "%s emitted %s newcum=%d listing stream %d (U=%v) although no chunk of that stream lies in the skipped range (%d, %d]",
				m.name(X), wtName(c.typ), newCum, fs.sid, fs.unordered, lo, newCum)
			return
		}
		if !mayList[k][seq] {
			w.violate("C07", "forward-wrong-sequence", "%s emitted %s newcum=%d listing stream %d with sequence %d which is not the sequence of any chunk in the skipped range", m.name(X), wtName(c.typ), newCum, fs.sid, seq)
			return
		}
	}
	for k, want := range mustList {
		got, ok := listed[k]
		if !ok {
			w.violate("C07", "forward-omits-stream", "%s emitted %s newcum=%d without an entry for stream %d (U=%v) although ordered message sequence %d of that stream is skipped: listed %v",
				m.name(X), wtName(c.typ), newCum, k.sid, k.u, want, c.fwdStreams)
			return
		}
		if seqGT(want, got, c.typ == wtIFORWARDTSN) {
			w.violate("C07", "forward-sequence-too-small", "%s emitted %s newcum=%d: stream %d listed with sequence %d but sequence %d is skipped as well", m.name(X), wtName(c.typ), newCum, k.sid, got, want)
			return
		}
	}
	m.count("c07.forward-checked")
}

func seqGT(a, b uint32, is32 bool) bool {
	if is32 {
		return wSNA32GT(a, b)
	}
	return a != b && int16(uint16(a)-uint16(b)) > 0
}

// checkBlockingWriteLaw (C18): in blocking-write mode a write returns only after all
// previously written data of the association has been handed to the transmission
// queue, i.e. every byte of every earlier accepted message has been put on the
// wire at least once.
func (m *wireMon) checkBlockingWriteLaw(X int, cur *msgRec) {
	if m.x == nil {
		return
	}
	if c := m.w.eps[X].conn; c != nil && (c.firstWriteErrSeq != 0 || c.nWriteAfterClose != 0) {
		// the transport refused packets: handed to the transmission path, but not visible on the wire
		return
	}
	emitted := map[*msgRec]int{}
	for _, ti := range m.s[X].sent {
		if ti.msg != nil {
			emitted[ti.msg] += ti.n
		}
	}
	for _, d := range m.x.dirs {
		if d.from != X {
			continue
		}
		for _, q := range d.msgs {
			if q == cur || !q.done || q.err != nil || q.returnSeq > cur.invokeSeq {
				continue
			}
			if emitted[q] < q.size {
				m.w.violate("C18", "blocking-write-returned-early", "%s: write of message %d returned while message %d (stream %d, %d bytes, accepted earlier) has only %d bytes on the wire", m.name(X), cur.id, q.id, q.sid, q.size, emitted[q])
				return
			}
		}
	}
	m.count("c18.blocking-write-law-checked")
}
