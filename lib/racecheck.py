# Race leg: the race-detector build of the simulation, one seed per process. The simulator's own
# synchronisation is hidden from the detector (zz_vsim_race_on.go), harness functions are compiled
# without instrumentation; what remains of harness accesses (runtime helpers such as growslice or map
# access called from harness code) is filtered here: a report counts when both conflicting accesses
# are made by library code.
import os, re, subprocess, json, collections
from concurrent.futures import ThreadPoolExecutor

GOROOT_PREFIX = '/opt/veriftools/go'

def frames(block):
    lines = block.split('\n')
    out = []
    for i in range(len(lines) - 1):
        loc = lines[i + 1].strip()
        if loc.startswith('/') and ':' in loc and lines[i].startswith('  ') and not lines[i].startswith('   '):
            out.append((lines[i].strip(), loc.split(' ')[0]))
    return out

def first_user_frame(block):
    """The access belongs to the library ('L') when its innermost non-runtime frame is library code AND the library
    was entered either by one of its own goroutines or through an exported method / function (an API call made by
    a harness task). A library function entered directly from harness code through an unexported name is a
    white-box accessor of the harness (monitors read state that way at quiescent points): harness access."""
    fr = [(f, l) for f, l in frames(block) if not l.startswith(GOROOT_PREFIX)]
    if not fr:
        return None, None
    f0, l0 = fr[0]
    if 'zz_vsim_' in l0:
        return f0, l0
    # walk outwards to the first harness frame; the frame just inside it is the entry point into the library
    entry = None
    for k, (f, l) in enumerate(fr):
        if 'zz_vsim_' in l:
            # the wrapper that starts a library goroutine (instrumented `go` statement) is not an accessor
            if re.search(r'\.(vsimGo\d*|runTask)(\.func\d+)*\(\)$', f):
                break
            entry = fr[k - 1][0] if k > 0 else None
            break
    if entry is not None:
        name = entry.split('(')[0].split('.')[-1] if ')' not in entry.split('.')[-1] else entry
        # method: pkg.(*T).name()  function: pkg.name()
        m = re.search(r'\.([A-Za-z_][A-Za-z0-9_]*)\(\)$', entry) or re.search(r'\.([A-Za-z_][A-Za-z0-9_]*)(\.func\d+)*\(\)$', entry)
        if m and not m.group(1)[0].isupper():
            return f0, l0 + ' [zz_vsim_ accessor ' + entry + ']'
    return f0, l0

def parse_reports(txt):
    """returns (library_reports, n_harness, n_mixed)"""
    reports = re.findall(r'==================\nWARNING: DATA RACE\n(.*?)\n==================', txt, re.S)
    lib, nh, nm = [], 0, 0
    for r in reports:
        parts = re.split(r'\n\n', r)
        acc = [p for p in parts if re.match(r'(Read|Write|Previous read|Previous write|Atomic|Previous atomic)', p.strip())]
        ff = [first_user_frame(a) for a in acc[:2]]
        kinds = ['H' if (l and 'zz_vsim_' in l) else ('L' if l else '?') for f, l in ff]
        # object construction: the harness hands Stream / Association pointers from one client task to another
        # through its own (hidden) memory, so the constructor's initialising writes look unordered with the first
        # use by another task; a real program publishes the pointer through synchronisation
        for i, (f, l) in enumerate(ff):
            if f and re.search(r'\.(createStream|createAssociation\w*|create(Client|Server)\w*|new[A-Z]\w*)\(\)$', f):
                kinds[i] = 'H'
        if kinds == ['L', 'L']:
            lib.append({'accesses': [f"{f} {l}" for f, l in ff], 'text': r[:6000]})
        elif 'L' in kinds:
            nm += 1
        else:
            nh += 1
    return lib, nh, nm

def run_one(binary, scenario, seed, params, timeout=600):
    cmd = [binary, '-test.run', '^TestVsim$', '-test.timeout', '0', '-vsim.prop', scenario, '-vsim.seed0', str(seed), '-vsim.n', '1',
           '-vsim.out', os.devnull]
    if params:
        cmd += ['-vsim.params', json.dumps(params)]
    env = dict(os.environ, GORACE='halt_on_error=0 exitcode=0', GOMAXPROCS='2')
    try:
        r = subprocess.run(cmd, stdout=subprocess.PIPE, stderr=subprocess.PIPE, env=env, timeout=timeout)
        txt = r.stderr.decode(errors='replace') + r.stdout.decode(errors='replace')
    except subprocess.TimeoutExpired:
        return dict(seed=seed, trouble='timeout')
    m = re.search(r'VSIM-END seed=(\d+) steps=(\d+) violation=(\S+) aborted="(.*)"', txt)
    lib, nh, nm = parse_reports(txt)
    out = dict(seed=seed, ended=bool(m), lib=lib, harness_reports=nh, mixed_reports=nm)
    if m:
        out.update(steps=int(m.group(2)), violation=m.group(3), aborted=m.group(4))
    else:
        out['tail'] = txt[-1500:]
    return out

def run_leg(binary, scenario, seed0, runs, params, workers=16):
    with ThreadPoolExecutor(max_workers=workers) as ex:
        return list(ex.map(lambda s: run_one(binary, scenario, s, params), [seed0 + i for i in range(runs)]))
