# Per-property settings of the checks (legs = scenarios run by quick / thorough).
COMMON_ASSUMPTIONS = [
    "seeded sampling of schedules/faults/workloads: a clean batch is evidence, not proof",
    "instrumentation (/verif/cmd/instrument) preserves the semantics of the package: it only adds scheduling points and replaces runtime nondeterminism (select choice, map order) by seeded choices that the Go specification allows",
    "testing/synctest (Go 1.26.8) virtual clock and quiescence detection are correct",
    "the harness' independent wire decoder follows RFC 9260/3758/6525/8260/9653",
]
NONTRIVIAL = ("one evaluation = one seeded simulated run (two real associations, seeded schedule/faults/workload/configuration); "
              "non-trivial = at least one fault/adversary action fired, packets crossed the network and API calls were checked; "
              "distinct = distinct behaviour signature (configuration bucket, fault kinds fired, reach probes hit, log2 buckets of packets/steps/API calls)")

def legs(scn, q_runs, q_budget, t_runs, t_budget, **kw):
    return {'quick': [dict(scenario=scn, runs=q_runs, budget=q_budget, **kw)],
            'thorough': [dict(scenario=scn, runs=t_runs, budget=t_budget, **kw)]}

PROPS = {
    'C01': dict(level='exploration', rule=NONTRIVIAL, assumptions=COMMON_ASSUMPTIONS,
                legs=legs('C01', 6000, 60, 400000, 1500), reports=['C01']),
    'C02': dict(level='exploration', rule=NONTRIVIAL, assumptions=COMMON_ASSUMPTIONS,
                legs=legs('C02', 6000, 60, 400000, 1500), reports=['C02']),
}

SIM_NOTE = ("Trusted base: the instrumenter and simulator runtime under /verif (scheduling points at every lock/cond/channel/select/goroutine start; "
            "seeded select and map-iteration order), Go 1.26.8 testing/synctest, the harness' own decoder and reference models. "
            "Sampling, not enumeration: schedules, faults, workloads and configurations are drawn from one seed per run.")

MANIFEST_TEXT = {
    'C01': dict(design_ref='DESIGN.md §5 C01',
                technique='deterministic simulation: seeded schedule + packet-fault search, complete sent/received history compared with a sequential stream model',
                text='Seeded exploration of workloads x packet faults (drop/dup/reorder/delay) x schedules x configurations (MTU, buffers, DATA/I-DATA, schedulers, zero checksum, initial TSN incl. 2^32 wrap) with two real associations; every read is checked against the exact sequence of accepted writes (prefix at every read, equality after drain). Evidence, not proof.',
                note=SIM_NOTE),
    'C02': dict(design_ref='DESIGN.md §5 C02',
                technique='deterministic simulation: bounded liveness after the heal point (virtual time), fault/partition/zero-window episodes before it',
                text='Seeded exploration with loss bursts, partitions, slow readers and small buffers; after the heal point every reliable message must be read and both BufferedAmount() be 0 within 6*RTO.max + serialisation term of virtual time. Evidence, not proof; the bound is the harness reading of "a few maximum retransmission timeouts".',
                note=SIM_NOTE + ' Workload precondition: concurrently in-progress messages fit in half the receive buffer.'),
}

# properties whose check is not built yet (kept current as the work proceeds)
NOT_BUILT = {pid: 'check not built yet in this session (work in progress, see DESIGN.md §10)' for pid in
             ['C%02d' % i for i in range(3, 21)]}
