# Per-property settings of the checks (legs = scenarios run by quick / thorough).
COMMON_ASSUMPTIONS = [
    "seeded sampling of schedules/faults/workloads: a clean batch is evidence, not proof",
    "instrumentation (/verif/cmd/instrument) preserves the semantics of the package: it only adds scheduling points and replaces runtime nondeterminism (select choice, map order) by seeded choices that the Go specification allows",
    "testing/synctest (Go 1.26.8) virtual clock and quiescence detection are correct",
    "the harness' independent wire decoder follows RFC 9260/3758/6525/8260/9653",
]
NONTRIVIAL = ("one evaluation = one seeded simulated run (two real associations, seeded schedule/faults/workload/configuration); "
              "non-trivial = at least one fault/adversary action fired, packets crossed the network and API calls were checked; "
              "distinct = distinct behaviour signature (configuration bucket, fault kinds fired, reach probes hit, log2 buckets of packets/steps/API calls)")

def legs(scn, q_runs, q_budget, t_runs, t_budget, **kw):
    return {'quick': [dict(scenario=scn, runs=q_runs, budget=q_budget, **kw)],
            'thorough': [dict(scenario=scn, runs=t_runs, budget=t_budget, **kw)]}

PROPS_PRE = {
    'C01': dict(level='exploration', rule=NONTRIVIAL, assumptions=COMMON_ASSUMPTIONS,
                legs=legs('C01', 6000, 60, 400000, 1500), reports=['C01']),
    'C02': dict(level='exploration', rule=NONTRIVIAL, assumptions=COMMON_ASSUMPTIONS,
                legs=legs('C02', 6000, 60, 400000, 1500), reports=['C02']),
}

PROPS = dict(PROPS_PRE)
for _pid, _scn in [('C04','C04'),('C09','C09'),('C08','C08'),('C14','C14'),('C05','C05'),('C06','C06'),('C07','C07'),('C10','C10'),('C11','C11'),('C12','C12'),('C15','C15')]:
    PROPS[_pid] = dict(level='exploration', rule=NONTRIVIAL, assumptions=COMMON_ASSUMPTIONS,
                       legs=legs(_scn, 6000, 60, 400000, 1500), reports=[_pid])

SIM_NOTE = ("Trusted base: the instrumenter and simulator runtime under /verif (scheduling points at every lock/cond/channel/select/goroutine start; "
            "seeded select and map-iteration order), Go 1.26.8 testing/synctest, the harness' own decoder and reference models. "
            "Sampling, not enumeration: schedules, faults, workloads and configurations are drawn from one seed per run.")

MANIFEST_TEXT = {
    'C01': dict(design_ref='DESIGN.md §5 C01',
                technique='deterministic simulation: seeded schedule + packet-fault search, complete sent/received history compared with a sequential stream model',
                text='Seeded exploration of workloads x packet faults (drop/dup/reorder/delay) x schedules x configurations (MTU, buffers, DATA/I-DATA, schedulers, zero checksum, initial TSN incl. 2^32 wrap) with two real associations; every read is checked against the exact sequence of accepted writes (prefix at every read, equality after drain). Evidence, not proof.',
                note=SIM_NOTE),
    'C02': dict(design_ref='DESIGN.md §5 C02',
                technique='deterministic simulation: bounded liveness after the heal point (virtual time), fault/partition/zero-window episodes before it',
                text='Seeded exploration with loss bursts, partitions, slow readers and small buffers; after the heal point every reliable message must be read and both BufferedAmount() be 0 within 6*RTO.max + serialisation term of virtual time. Evidence, not proof; the bound is the harness reading of "a few maximum retransmission timeouts".',
                note=SIM_NOTE + ' Workload precondition: concurrently in-progress messages fit in half the receive buffer.'),
}

MANIFEST_TEXT.update({
    'C05': dict(design_ref='DESIGN.md §5 C05',
                technique='deterministic simulation: every emitted SACK judged against wire ground truth (delivered DATA/FORWARD-TSN) and a set-based reference receiver, incl. initial TSNs at the 2^32 wrap',
                text='Seeded exploration (reordering, duplicates, loss, FORWARD-TSN, wrap-biased initial TSNs, buffer sizes); soundness of cumulative point and gap blocks is checked on every emitted SACK of every run, completeness (SACK == reference receiver) wherever nothing may legitimately be refused. Evidence, not proof.',
                note=SIM_NOTE),
    'C06': dict(design_ref='DESIGN.md §5 C06',
                technique='deterministic simulation: RefStream oracle per ordering/reliability policy on every read, per-TSN transmission counts and times on the wire',
                text='Seeded exploration over ordered/unordered x reliable/rexmit/timed streams with DCEP messages, loss up to 60%; reads are attributed to unique writes (at most once, intact, order per policy), wire monitor bounds transmissions per TSN by the stream policy. Two recorded known findings (KF1, KF2). Evidence, not proof.',
                note=SIM_NOTE),
    'C07': dict(design_ref='DESIGN.md §5 C07',
                technique='deterministic simulation: FORWARD-TSN content vs. set of abandoned chunks on the wire, tail messages and reliable canaries must still arrive (bounded), written = delivered + skipped',
                text='Seeded exploration with abandoned first/last/partially received messages, lost and duplicated FORWARD-TSNs, mixed policies; every emitted (I-)FORWARD-TSN is checked against the chunks it skips, and later messages must be delivered within the C02 bound. Two recorded known findings (KF4, KF5) whose trigger regions are excluded from the search and replayed as witnesses. Evidence, not proof.',
                note=SIM_NOTE),
    'C10': dict(design_ref='DESIGN.md §5 C10',
                technique='deterministic simulation: per-emission accounting of outstanding bytes vs cwnd snapshot and delivered a_rwnd; cwnd laws at T3 / fast-recovery steps',
                text='Seeded exploration with small buffers, slow readers, loss (T3, fast retransmit, RACK/PTO), MTU/MinCwnd/CwndCAStep swarm; each first emission of a TSN is checked against cwnd at the start of the step and the most recently delivered a_rwnd (single-chunk probe exception), every DATA packet against the MTU, cwnd against its floor and cuts. Evidence, not proof.',
                note=SIM_NOTE),
    'C11': dict(design_ref='DESIGN.md §5 C11',
                technique='deterministic simulation: white-box byte counters vs bytes reachable at every step, a_rwnd of every emitted SACK vs buffer minus counters, end-state zero',
                text='Seeded exploration with duplicates, reordering, abandoned fragments, slow readers, small buffers; counters are compared with the bytes actually reachable after every scheduling step, each emitted a_rwnd with buffer minus counters at gather time, and after a drained run nothing may be held. One recorded known finding (KF3). The hostile-sender bounds are exercised by C03. Evidence, not proof.',
                note=SIM_NOTE),
    'C12': dict(design_ref='DESIGN.md §5 C12',
                technique='deterministic simulation: every emitted packet decoded by an independent decoder, differentially against the repository decoder, re-encoded for stability',
                text='Every packet emitted in the seeded runs (handshake variants, DATA/I-DATA, SACK, FORWARD-TSN, heartbeats, ...) must be accepted by the independent RFC decoder, decode identically with the repository decoder and re-encode to the same bytes; mandatory parameters are checked. Evidence, not proof.',
                note=SIM_NOTE),
})

# properties whose check is not built yet (kept current as the work proceeds)
NOT_BUILT = {pid: 'check not built yet in this session (work in progress, see DESIGN.md §10)' for pid in
             ['C03','C04','C08','C09','C13','C14','C15','C16','C17','C18','C19','C20']}
