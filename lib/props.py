# Per-property settings of the checks (legs = scenarios run by quick / thorough).
COMMON_ASSUMPTIONS = [
    "seeded sampling of schedules/faults/workloads: a clean batch is evidence, not proof",
    "instrumentation (/verif/cmd/instrument) preserves the semantics of the package: it only adds scheduling points and replaces runtime nondeterminism (select choice, map order) by seeded choices that the Go specification allows",
    "testing/synctest (Go 1.26.8) virtual clock and quiescence detection are correct",
    "the harness' independent wire decoder follows RFC 9260/3758/6525/8260/9653",
]
NONTRIVIAL = ("one evaluation = one seeded simulated run (two real associations, seeded schedule/faults/workload/configuration); "
              "non-trivial = at least one fault/adversary action fired, packets crossed the network and API calls were checked; "
              "distinct = distinct behaviour signature (configuration bucket, fault kinds fired, reach probes hit, log2 buckets of packets/steps/API calls)")

def legs(scn, q_runs, q_budget, t_runs, t_budget, **kw):
    return {'quick': [dict(scenario=scn, runs=q_runs, budget=q_budget, **kw)],
            'thorough': [dict(scenario=scn, runs=t_runs, budget=t_budget, **kw)]}

PROPS_PRE = {
    'C01': dict(level='exploration', rule=NONTRIVIAL, assumptions=COMMON_ASSUMPTIONS,
                legs=legs('C01', 6000, 60, 400000, 1500), reports=['C01']),
    'C02': dict(level='exploration', rule=NONTRIVIAL, assumptions=COMMON_ASSUMPTIONS,
                legs=legs('C02', 6000, 60, 400000, 1500), reports=['C02']),
}

PROPS = dict(PROPS_PRE)
for _pid, _scn in [('C20','C20'),('C03','C03'),('C16','C16'),('C13','C13'),('C19','C19'),('C17','C17'),('C18','C18'),('C04','C04'),('C09','C09'),('C08','C08'),('C14','C14'),('C05','C05'),('C06','C06'),('C07','C07'),('C10','C10'),('C11','C11'),('C12','C12'),('C15','C15')]:
    PROPS[_pid] = dict(level='exploration', rule=NONTRIVIAL, assumptions=COMMON_ASSUMPTIONS,
                       legs=legs(_scn, 6000, 60, 400000, 1500), reports=[_pid])

def add_leg(pid, scn, q_runs, q_budget, t_runs, t_budget):
    PROPS[pid]['legs']['quick'].append(dict(scenario=scn, runs=q_runs, budget=q_budget, tag=scn))
    PROPS[pid]['legs']['thorough'].append(dict(scenario=scn, runs=t_runs, budget=t_budget, tag=scn))

# directed, seeded witness scenarios that stay part of the checks
add_leg('C18', 'D_deadline_rearm', 1500, 30, 60000, 300)
add_leg('C15', 'C15b', 4000, 60, 200000, 900)
add_leg('C17', 'C17w', 3000, 60, 200000, 900)
add_leg('C13', 'C13e', 3000, 60, 200000, 900)
add_leg('C06', 'C06f', 3000, 40, 200000, 900)
# neighbourhood legs (thorough tier only): every seed is followed by re-runs in which one to three decisions of the
# environment (a packet fate, a scheduling choice) are changed while configuration and workload stay the same
for _pid, _scn in [('C02', 'C02'), ('C06', 'C06f'), ('C07', 'C07'), ('C10', 'C10')]:
    PROPS[_pid]['legs']['thorough'].append(dict(scenario=_scn, runs=40000, budget=900, tag='neigh', mutants=3, seed_offset=700000))
# the write-contract flavour (failing, blocking and deadline writes, empty writes, short reads) under the buffered-amount oracle
add_leg('C15', 'C18', 4000, 40, 200000, 900)
PROPS['C03']['legs']['quick'].append(dict(scenario='C03', runs=1600, budget=60, tag='sweep', params={'c03_sweep': 1}))
PROPS['C03']['legs']['thorough'].append(dict(scenario='C03', runs=64000, budget=900, tag='sweep', params={'c03_sweep': 1}))
def _c04_size(n, k):
    P, A = 2 * n, 4
    total, c, a = 0, 1, 1
    for j in range(k + 1):
        total += c * a
        c = c * (P - j) // (j + 1)
        a *= A
    return total * 48
def _c04_sweep(n, k):
    return dict(params=dict(c04_sweep=1, sweep_n=n, sweep_k=k), size=_c04_size(n, k),
                text=f'{{client/server, server/client, client/client}} x interleaving on/off per side x zero-checksum acceptance on/off per side (48 configurations) x every placement of at most {k} faults from {{drop, duplicate, delay past the next retransmission, swap with successor}} on the first {n} packets of each direction of the handshake')
PROPS['C04']['level'] = 'fault_enumeration'
PROPS['C04']['legs']['quick'].append(dict(scenario='C04', runs=0, budget=300, tag='sweep', sweep=_c04_sweep(4, 2)))
PROPS['C04']['legs']['thorough'].append(dict(scenario='C04', runs=0, budget=3000, tag='sweep', sweep=_c04_sweep(6, 3)))
def _c08_sweep(n, k):
    P, A = 2 * n, 4
    total, c, a = 0, 1, 1
    for j in range(k + 1):
        total += c * a
        c = c * (P - j) // (j + 1)
        a *= A
    return dict(params=dict(c08_sweep=1, sweep_n=n, sweep_k=k), size=total * 6,
                text=f'{{Shutdown called by A, by B}} x {{one-sided, crossed at once, crossed 5 ms later}} x every placement of at most {k} faults from {{drop, duplicate, delay past the next retransmission, swap with successor}} on the first {n} packets of each direction emitted after Shutdown was invoked (writers finished before)')
PROPS['C08']['legs']['quick'].append(dict(scenario='C08', runs=0, budget=300, tag='sweep', sweep=_c08_sweep(4, 2)))
PROPS['C08']['legs']['thorough'].append(dict(scenario='C08', runs=0, budget=3000, tag='sweep', sweep=_c08_sweep(6, 3)))
PROPS['C08']['level'] = 'fault_enumeration'
_C09_SWEEP = 'for each base workload (one seed: configuration, workload, schedule): every crash kind {Close, Abort, transport read error, transport write error, conn.Close, two concurrent Close, Close after Abort} x crashed side {A, B} x every wire event (packet emission) of the fault-free reference pass of that seed as the crash point (every ceil(n/512)-th event, first and last included where the stride hits them, when the pass has n > 512 events); a base workload cut short by the wall-clock budget is not counted as enumerated'
PROPS['C09']['legs']['quick'].append(dict(scenario='C09', runs=32, budget=300, tag='sweep', params={'crash_sweep': 1}, crash_sweep=_C09_SWEEP))
PROPS['C09']['legs']['thorough'].append(dict(scenario='C09', runs=1600, budget=3000, tag='sweep', params={'crash_sweep': 1}, crash_sweep=_C09_SWEEP))
PROPS['C09']['level'] = 'fault_enumeration'
add_leg('C12', 'C12g', 400, 60, 20000, 600)
add_leg('C11', 'C11h', 320, 60, 20000, 1500)
# the race-detector build also runs the teardown, shutdown, reset, transfer and adversary scenarios (their white-box
# monitors read library state through unexported accessors from the driver: those reports are filtered, see racecheck.py)
PROPS['C20']['race_legs'] = {
    'quick': [dict(scenario='C20', runs=480)] + [dict(scenario=s, runs=96) for s in ('C09', 'C08', 'C14', 'C01', 'C06', 'C18', 'C03', 'C15b')],
    'thorough': [dict(scenario='C20', runs=40000)] + [dict(scenario=s, runs=4000) for s in ('C09', 'C08', 'C14', 'C01', 'C06', 'C18', 'C03', 'C15b', 'C17', 'C10', 'C04')]}
add_leg('C20', 'D_deadline_two_readers', 1, 10, 1, 10)
add_leg('C20', 'D_write_deadline_moved', 3000, 30, 100000, 600)
add_leg('C20', 'D_gate_token', 12000, 60, 400000, 900)
add_leg('C16', 'C16r', 4000, 60, 300000, 1200)
add_leg('C16', 'C16s', 3000, 60, 200000, 900)
add_leg('C16', 'D_seq_shift', 1, 10, 1, 10)
add_leg('C16', 'C16w', 48, 120, 4000, 1800)
add_leg('C05', 'C16w', 32, 120, 2000, 1200)
add_leg('C16', 'D_serial_arithmetic', 64, 60, 64, 120)
add_leg('C19', 'D_heartbeat', 1, 10, 1, 10)
add_leg('C19', 'D_dup_sack', 1, 10, 1, 10)

SIM_NOTE = ("Trusted base: the instrumenter and simulator runtime under /verif (scheduling points at every lock/cond/channel/select/goroutine start; "
            "seeded select and map-iteration order; two seeded schedule families: random walk and priorities), Go 1.26.8 testing/synctest, the harness' own decoder and reference models. "
            "Sampling, not enumeration: schedules, faults, workloads and configurations are drawn from one seed per run.")

MANIFEST_TEXT = {
    'C01': dict(design_ref='DESIGN.md §5 C01',
                technique='deterministic simulation: seeded schedule + packet-fault search, complete sent/received history compared with a sequential stream model',
                text='Seeded exploration of workloads x packet faults (drop/dup/reorder/delay) x schedules x configurations (MTU, buffers, DATA/I-DATA, schedulers, zero checksum, initial TSN incl. 2^32 wrap) with two real associations; every read is checked against the exact sequence of accepted writes (prefix at every read, equality after drain). Evidence, not proof.',
                note=SIM_NOTE),
    'C02': dict(design_ref='DESIGN.md §5 C02',
                technique='deterministic simulation: bounded liveness after the heal point (virtual time), fault/partition/zero-window episodes before it',
                text='Seeded exploration with loss bursts, partitions, slow readers and small buffers; after the heal point every reliable message must be read and both BufferedAmount() be 0 within 6*RTO.max + serialisation term of virtual time. Evidence, not proof; the bound is the harness reading of "a few maximum retransmission timeouts".',
                note=SIM_NOTE + ' Workload precondition: concurrently in-progress messages fit in half the receive buffer.'),
}

MANIFEST_TEXT.update({
    'C05': dict(design_ref='DESIGN.md §5 C05',
                technique='deterministic simulation: every emitted SACK judged against wire ground truth (delivered DATA/FORWARD-TSN) and a set-based reference receiver, incl. initial TSNs at the 2^32 wrap',
                text='Seeded exploration (reordering, duplicates, loss, FORWARD-TSN, wrap-biased initial TSNs, buffer sizes); soundness of cumulative point and gap blocks is checked on every emitted SACK of every run, completeness (SACK == reference receiver) wherever nothing may legitimately be refused. Evidence, not proof.',
                note=SIM_NOTE),
    'C06': dict(design_ref='DESIGN.md §5 C06',
                technique='deterministic simulation: RefStream oracle per ordering/reliability policy on every read, per-TSN transmission counts and times on the wire',
                text='Seeded exploration over ordered/unordered x reliable/rexmit/timed streams with DCEP messages, loss up to 60%; reads are attributed to unique writes (at most once, intact, order per policy), wire monitor bounds transmissions per TSN by the stream policy; a second leg (C06f) uses partially reliable streams only, with mostly fragmented messages, so that messages are partly in flight and partly pending while loss recovery marks chunks. Recorded known findings KF1, KF2, KF7, KF7b (the evidence counts the runs that hit them). Evidence, not proof.',
                note=SIM_NOTE),
    'C07': dict(design_ref='DESIGN.md §5 C07',
                technique='deterministic simulation: FORWARD-TSN content vs. set of abandoned chunks on the wire, tail messages and reliable canaries must still arrive (bounded), written = delivered + skipped',
                text='Seeded exploration with abandoned first/last/partially received messages, lost and duplicated FORWARD-TSNs, mixed policies; every emitted (I-)FORWARD-TSN is checked against the chunks it skips, and later messages must be delivered within the C02 bound. Two recorded known findings (KF4, KF5) whose trigger regions are excluded from the search and replayed as witnesses. Evidence, not proof.',
                note=SIM_NOTE),
    'C10': dict(design_ref='DESIGN.md §5 C10',
                technique='deterministic simulation: per-emission accounting of outstanding bytes vs cwnd snapshot and delivered a_rwnd; cwnd laws at T3 / fast-recovery steps',
                text='Seeded exploration with small buffers, slow readers, loss (T3, fast retransmit, RACK/PTO), MTU/MinCwnd/CwndCAStep swarm; each first emission of a TSN is checked against cwnd at the start of the step and the most recently delivered a_rwnd (single-chunk probe exception), every DATA packet against the MTU, cwnd against its floor and cuts. Evidence, not proof.',
                note=SIM_NOTE),
    'C11': dict(design_ref='DESIGN.md §5 C11',
                technique='deterministic simulation: white-box byte counters vs bytes reachable at every step, a_rwnd of every emitted SACK vs buffer minus counters, end-state zero',
                text='Seeded exploration with duplicates, reordering, abandoned fragments, slow readers, small buffers; counters are compared with the bytes actually reachable after every scheduling step, each emitted a_rwnd with buffer minus counters at gather time, and after a drained run nothing may be held. One recorded known finding (KF3). A second leg (C11h) replaces the peer by an adversary that pours DATA / I-DATA into the endpoint without looking at the window (never-ending messages on several streams, holes, TSNs around and beyond the window edge, application not reading): nothing may be kept beyond the tracking window, with a zero advertised window only hole-filling chunks below the highest TSN received may be kept, and the bytes held stay below buffer + one chunk + hole fillers. Evidence, not proof.',
                note=SIM_NOTE),
    'C12': dict(design_ref='DESIGN.md §5 C12',
                technique='deterministic simulation: every emitted packet decoded by an independent decoder, differentially against the repository decoder, re-encoded for stability',
                text='Every packet emitted in the seeded runs (handshake variants, DATA/I-DATA, SACK, FORWARD-TSN, heartbeats, ...) must be accepted by the independent RFC decoder, decode identically with the repository decoder and re-encode to the same bytes; mandatory parameters are checked. An auxiliary leg without simulation (C12g; the codec is a pure function of the bytes) builds structurally valid packets of every chunk kind with arbitrary and boundary field values, alone and bundled: what the repository decoder accepts must carry exactly the values it was built from, decode - encode - decode must be stable, and every chunk must read the same alone and inside a bundle. One defect found there and fixed (F14). Evidence, not proof.',
                note=SIM_NOTE),
})

MANIFEST_TEXT.update({
    'C04': dict(design_ref='DESIGN.md §5 C04',
                technique='deterministic simulation: complete enumeration of <= k fault placements on the first n handshake packets of each direction x role / option combinations (fault plan through the simulated network), plus seeded handshakes under bounded packet faults (INIT collision, SNAP), agreement oracle on Metadata and wire, stale-packet replay, silent peer with the T1 schedule as bound',
                text='Seeded exploration of client/server, client/client and SNAP handshakes with loss/dup/delay confined to the first packets of each direction (so every retransmitted packet keeps a chance), followed by Metadata agreement, verification-tag and checksum checks on the wire and a 20-message exchange while captured handshake packets are replayed; silent-peer and closed-server-transport runs are bounded by the RFC 9260 T1 schedule. Systematic leg (this is what the level refers to): one run for every cell of {client/server, server/client, client/client} x interleaving per side x zero-checksum acceptance per side x every placement of at most k faults from {drop, duplicate, delay past the next retransmission, swap with successor} on the first n packets of each direction (quick: n=4, k=2, 23 088 cells; thorough: n=6, k=3, 728 880 cells), driven through the same simulator by a fault plan decoded from the run index; the evidence lists the sub-space, its size, the cells executed and exhaustive=true only when they are equal. All other dimensions (MTU, buffers, RTO.max, latency, initial TSNs, schedule) and the other legs are seeded sampling. Evidence, not proof.',
                note=SIM_NOTE),
    'C08': dict(design_ref='DESIGN.md §5 C08',
                technique='deterministic simulation: Shutdown at seeded points of a transfer (one-sided and crossed), loss / long partitions during the shutdown sequence, delivery + rejection + closure oracle',
                text='Seeded exploration: Shutdown is called immediately, mid-transfer or after the writers finished, one-sided or crossed with offsets, under loss/dup/reorder and partitions of up to 400 s; when it returns nil every accepted write must have been read by the peer, writes invoked in a non-established state must be rejected without trace, both ends must reach closed (the second at the latest when its transport closes) and then stay silent for 10 virtual minutes. Systematic leg (this is what the level refers to): one run for every cell of {Shutdown called by A, by B} x {one-sided, crossed at once, crossed 5 ms later} x every placement of at most k faults from {drop, duplicate, delay past the next retransmission, swap with successor} on the first n packets of each direction emitted after Shutdown was invoked (quick n=4, k=2: 2 886 cells; thorough n=6, k=3: 91 110 cells), the cell decoded from the run index, the workload before the shutdown seeded; the evidence reports the sub-space, its size, the cells executed and exhaustive=true only when they are equal. Everything else is seeded sampling. Evidence, not proof.',
                note=SIM_NOTE),
    'C09': dict(design_ref='DESIGN.md §5 C09',
                technique='deterministic simulation: crash-point injection (Close / Abort / transport read or write error / conn.Close / concurrent Close); complete enumeration of crash kind x side x wire event of the fault-free reference pass for a set of base workloads, plus seeded crash points at wire-event or scheduling-step granularity',
                text='Two-pass seeded exploration: a fault-free pass of the seed numbers its wire events and scheduling steps, the second pass injects one teardown fault at a drawn event or step into handshake, bulk transfer (blocked readers, blocking writers, read deadlines, short reads), stream resets or graceful shutdown in progress; every call blocked on the endpoint must return within the bound, the association must be closed, its task census empty, repeated Close harmless, a delivered ABORT must close the peer with the cause, and nothing may run or be written during 10 idle minutes. Systematic leg (this is what the level refers to): for each of a number of base workloads (quick 32, thorough 1600 seeds) the crash is placed, in turn, at every wire event of the fault-free pass of that seed, for each of the 7 crash kinds and both sides (about 1000 runs per base workload); the evidence lists the number of base workloads, the size of the enumerated space, the cells executed and exhaustive=true only when they are equal. Crash points at scheduling-step granularity and the base workloads themselves are seeded sampling. Evidence, not proof.',
                note=SIM_NOTE),
    'C14': dict(design_ref='DESIGN.md §5 C14',
                technique='deterministic simulation: close / re-open cycles of stream identifiers under faults, EOF-after-data oracle per incarnation, wire check of fresh sequence numbers',
                text='Seeded exploration of up to 5 close/re-open cycles on several streams (initiator opens, responder accepts and closes after EOF) under loss, duplication and reordering of DATA and RECONFIG; each reader must see every message written before Close and only then EOF, writes after Close must fail without trace, and each new incarnation must start at SSN/MID 0. One recorded known finding (KF6). Evidence, not proof.',
                note=SIM_NOTE),
    'C18': dict(design_ref='DESIGN.md §5 C18',
                technique='deterministic simulation: rejected / failing calls mixed into transfers (oversize, empty, write deadlines in blocking mode), short-buffer reads, read deadlines placed at the instant of delivery with seeded scheduling of timer goroutine vs reader',
                text='Seeded exploration in which writers mix oversize writes (also after SetMaxMessageSize), empty writes and blocking writes with expiring deadlines among good writes, and readers use short buffers and read deadlines (armed, expired, cleared, re-armed); rejected calls must return the documented error with n=0 and leave no trace on the wire or at the peer, a blocking write may only return once all earlier data is on the wire, deadline reads must return at the deadline. A directed seeded leg keeps the fixed stale-deadline race (F6) under watch. Evidence, not proof.',
                note=SIM_NOTE),
})

MANIFEST_TEXT.update({
    'C15': dict(design_ref='DESIGN.md §5 C15',
                technique='deterministic simulation: reference buffered-amount model (written - acknowledged bytes from the wire) compared at idle points; single-message bursts drained to zero give an exact count of threshold crossings; lock table decides "no internal lock held" at callback entry',
                text='In every data-path run each stream BufferedAmount and the association figure are compared with written minus wire-acknowledged bytes whenever the system is idle, and must be exactly 0 after drain; a dedicated seeded leg writes single messages that are drained to zero before the next one, so the number of OnBufferedAmountLow invocations must equal the number of messages larger than the threshold, and the callback (which calls back into stream and association and writes) must be entered with no instrumented lock held. Evidence, not proof.',
                note=SIM_NOTE),
    'C17': dict(design_ref='DESIGN.md §5 C17',
                technique='deterministic simulation: order of first emissions (TSN assignment order) judged against negotiated framing, fragment order, and round-robin / SCFQ fairness bounds over intervals of reconstructed continuous backlog',
                text='Seeded exploration with 2-7 concurrently backlogged streams of one sender, round robin or WFQ with seeded weights, interleaving on; DATA/I-DATA and (I-)FORWARD-TSN kinds must match the negotiation in every run of every scenario, fragments must be consecutive (DATA) or FSN-ordered (I-DATA), round robin must serve each continuously backlogged stream exactly once between two services of another, WFQ must keep weight-normalised service of two continuously backlogged streams within one maximum chunk per stream. Wrong-kind chunks answered by ABORT are exercised by C03. Evidence, not proof.',
                note=SIM_NOTE),
})

MANIFEST_TEXT.update({
    'C19': dict(design_ref='DESIGN.md §5 C19',
                technique='deterministic simulation: virtual-time log of every timer callback; RTO bounds and RFC 6298 / Karn update judged at every scheduling step from wire round-trip samples; total outages for the back-off law; SACK deadlines from the wire',
                text='In every run of the C19 scenario (and of the other data-path scenarios) RTO must stay within [1 s, RTO.max] after every step, every SRTT change must equal the RFC 6298 update for the round trip of a chunk that was transmitted exactly once and newly acknowledged in that step (Karn), every accepted DATA packet must be covered by a SACK within 200 ms and at once when it left a gap or was a duplicate; total outages of 14 RTO.max with DATA, SHUTDOWN or RECONFIG outstanding must show timer expiries doubling up to RTO.max and never stopping. Handshake retry bounds are checked by C04, the heartbeat clause by a directed leg. Evidence, not proof.',
                note=SIM_NOTE),
})

MANIFEST_TEXT.update({
    'C13': dict(design_ref='DESIGN.md §5 C13',
                technique='deterministic simulation: twin runs of one seed (packet corrupted / checksum zeroed vs. the same packet lost or intact) must give identical observable histories; checksum field of every emitted packet judged against the negotiation seen on the wire',
                text='Acceptance: for each seed one packet (handshake packets included) is corrupted with a non-zero wrong checksum, or gets a zero checksum, and the run is compared event by event (API results, emitted bytes, virtual times) with the twin in which that packet is lost - or delivered intact when the receiver declared zero-checksum acceptance and the packet does not start with INIT / COOKIE-ECHO. Emission: in every run of the C13 legs (and all other scenarios) a checksum field must be correct or zero, zero only after the peer declared acceptance with the DTLS method and never on INIT / COOKIE-ECHO packets. Evidence, not proof.',
                note=SIM_NOTE + ' Twin runs use the deterministic run-to-completion schedule and identity select/map orders so that both runs consume their decision tapes identically.'),
})

MANIFEST_TEXT.update({
    'C16': dict(design_ref='DESIGN.md §5 C16',
                technique='deterministic simulation: shifted twin runs of one seed (initial TSNs just below 2^32 and SSN / MID bases just below their wrap vs. the same run far from any wrap) must give identical canonicalised observable histories; exhaustive enumeration of the 16-bit comparison helpers',
                text='For each seed the same workload, fault sequence and schedule is executed twice: once with both initial TSNs (hence request sequence numbers) within one tracking window of 2^32 and every stream\'s SSN / MID space started just below its wrap (set white-box at both ends), once far from any wrap; API results and emitted packets - with every TSN, SSN, MID and request number rewritten as an offset from its base - must agree event by event and at the same virtual times. A second leg does the same over stream close / re-open cycles (request numbers and reset cut-off TSNs cross the wrap). The comparison helpers are enumerated over all 2^32 16-bit pairs and a structured sample of 32-bit pairs against an independent RFC 1982 reference, including shift invariance. A third leg (C16w) keeps up to a full tracking window of one-byte messages in flight across 2^32 above an early loss, with seeded depth, offset and receive-buffer size (bitmap length). Two defects found and fixed (F10, F11). Evidence, not proof.',
                note=SIM_NOTE + ' Twin runs use the deterministic run-to-completion schedule and a shift-invariant base order for 32-bit map keys, so that both runs consume their decision tapes identically. The helper enumeration is not a simulation (pure function); it rides along in the same check.'),
})

MANIFEST_TEXT.update({
    'C03': dict(design_ref='DESIGN.md §5 C03',
                technique='deterministic simulation: an adversary task injects forged, malformed, mutated and replayed packets into a live pair at seeded instants (handshake, transfer with data in flight, stream resets, shutdown); generator-side classification inert / effective; panic, lock-cycle and loop-iteration bounds on every scheduling step; end-to-end transfer oracle for inert-only runs',
                text='Seeded exploration: 1-50 packets per run from 40 generator classes (random bytes, truncated / replayed / field-mutated real packets, bad lengths with a valid checksum, acknowledgements of data never sent, impossible gap blocks incl. blocks that start inside the in-flight range, forward-TSNs behind and up to 2^31 ahead, duplicate / far / fresh / zero-length / wrong-kind DATA, arbitrary RECONFIG, handshake and shutdown chunks in every state, unknown chunk types with all action codes, ERROR / ABORT, port 0, bad checksum) are injected while the pair transfers data over a lossy network. Every run: no panic in any task, no lock cycle, at most 4 million loop iterations between two scheduling points (instrumented loops: bounded work per packet, decided deterministically), every emitted packet well formed, in-flight / reassembly / received-TSN counters consistent after every step. Runs with only inert packets must complete the transfer exactly (each accepted message once, in order, nothing left buffered) unless the endpoint answered ABORT; a chunk of the kind that was not negotiated must be answered with ABORT (C17). A second leg sweeps generator class x situation cells evenly. Evidence, not proof.',
                note=SIM_NOTE + ' The wire monitors of the other properties are not attached in these runs (the adversary forges their ground truth); the twin-run comparison planned in the design was replaced by the end-to-end oracle because an inert packet may legitimately change timing and hence the delivery order of unordered streams.'),
})

MANIFEST_TEXT.update({
    'C20': dict(design_ref='DESIGN.md §5 C20',
                technique='deterministic simulation: seeded programs of concurrent API calls (2-10 client tasks on shared Association / Stream objects) under the token scheduler with task switches at every lock, wake-up and channel operation; lock-table deadlock detection, every-call-returns oracle, lock-free callback entry, FIFO linearizability of each ordered stream direction checked with porcupine; Go race detector on the same simulation with the synchronisation of the simulator hidden from it',
                text='Seeded exploration: up to 5 client tasks per endpoint run programs of 3-16 calls (WriteSCTP and ReadSCTP on the same streams from several tasks, read / write deadlines set and moved, reliability parameters, buffered-amount getters, threshold and callback installation with a callback that calls back into stream and association, statistics getters, ActiveHeartbeat, SetMaxMessageSize, AcceptStream; in a third of the runs Stream.Close, Shutdown with a context, Close and Abort fired concurrently at the end) while traffic, loss and timers are active. Oracles: no lock cycle among parked tasks, every call returns (after both associations are closed at the latest), callbacks entered with no instrumented lock held, no panic, no library goroutine left after Close; per stream direction no message altered, duplicated, delivered after a failed write or - when nothing was closed - lost; the invoke / return history of successful writes and reads of every ordered direction must be linearizable as a FIFO queue (porcupine, 20 s budget, timeouts counted, never reported). Two defects found and fixed (F12, F13), kept under watch by directed legs. Data races: the same seeded storms are run in a race-detector build in which the synchronisation of the simulator itself (token hand-over, harness mutexes) is hidden from the detector and harness functions are compiled without instrumentation, so that a report means that the library itself does not order two conflicting accesses - independent of whether the seeded schedule made them adjacent; reports between harness accesses (and of library state read by the harness through unexported accessors, or initialised by a constructor and handed between client tasks by the harness) are filtered. The race build runs the storm scenario and, in smaller numbers, the teardown, shutdown, reset, transfer, API-contract and adversary scenarios. One seed per process, replayable by seed. Evidence, not proof.',
                note=SIM_NOTE),
})

# properties whose check is not built yet (kept current as the work proceeds)
NOT_BUILT = {pid: 'check not built yet in this session (work in progress, see DESIGN.md §10)' for pid in
             []}
