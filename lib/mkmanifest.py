#!/usr/bin/env python3
"""Regenerates /verif/MANIFEST.json from lib/props.py (single source of truth)."""
import json, os, sys
VERIF = os.path.dirname(os.path.dirname(os.path.abspath(__file__)))
sys.path.insert(0, os.path.join(VERIF, 'lib'))
from props import PROPS, MANIFEST_TEXT, NOT_BUILT

ALL = ['C%02d' % i for i in range(1, 21)]
checks = []
for pid in ALL:
    if pid not in PROPS or pid in NOT_BUILT:
        continue
    t = MANIFEST_TEXT[pid]
    checks.append({
        'property_id': pid,
        'quick_cmd': f'./check {pid} --tier quick',
        'thorough_cmd': f'./check {pid} --tier thorough',
        'evidence_file': f'/verif/evidence/{pid}.json',
        'replay_cmd_template': f'./check {pid} --replay {{path}}',
        'engine': 'simsctp',
        'level_claimed': {'category': PROPS[pid]['level'], 'text': t['text'], 'design_ref': t['design_ref']},
        'level_note': t['note'],
        'technique': t['technique'],
    })
na = [{'property_id': pid, 'reason': NOT_BUILT[pid]} for pid in ALL if pid in NOT_BUILT or pid not in PROPS]
m = {
    'version': 1,
    'setup_cmd': './bin/setup.sh',
    'notes': 'Deterministic simulation with fault injection: two real pion/sctp associations inside one testing/synctest bubble under a seeded token scheduler, simulated clock and faulty network. See DESIGN.md.',
    'hooks': {
        'guard': 'none: no hook lives in /repo; instrumentation is applied to a scratch copy at check time through `go build -overlay` (see bin/build.sh)',
        'enable': 'bin/build.sh <scratch>: /verif/bin/instrument rewrites /repo/*.go into <scratch>/inst, overlay.json maps them plus /verif/sim/*.go into package sctp, then `go1.26.8 test -c -overlay`',
        'baseline_off_cmd': 'cd /repo && go test -vet=off -count=1 -timeout 25m ./...',
        'source_commits': [],
        'add_only': True,
    },
    'engines': [{
        'name': 'simsctp', 'path': '/verif/sim', 'serves_properties': [c['property_id'] for c in checks],
        'kind_free_text': 'deterministic simulator: source-instrumented token scheduler (locks, cond, select, map order, goroutine start), synctest virtual clock, seeded faulty network, independent wire decoder, reference models, ddmin replay minimiser',
    }],
    'checks': checks,
    'not_applicable': na,
}
with open(os.path.join(VERIF, 'MANIFEST.json'), 'w') as f:
    json.dump(m, f, indent=1)
print(f"{len(checks)} checks, {len(na)} not claimed")
